#!/bin/bash
# usage: refactor_check.sh <patch.diff> — applies a behaviour-preserving refactoring to a scratch copy of /repo's
# sources and runs every check on it; any VIOLATION is a false alarm of the framework.
set -u
P=$1; D=$(mktemp -d /tmp/rfc.XXXX); SV=$(mktemp -d /tmp/rfv.XXXX)
cp /repo/*.go /repo/go.mod /repo/go.sum $D/; mkdir -p $SV/evidence; cp /verif/known_findings.json $SV/; cp -r /verif/golden $SV/
( cd $D && git apply $P ) || { echo "APPLY FAILED"; rm -rf $D $SV; exit 2; }
/verif/bin/sodcheck -prop all -repo $D -verif $SV > $SV/out.txt 2>&1
grep -E "^  (violated|undecided)|BROKEN" $SV/out.txt | cut -c1-260
# a tree that does not load was not checked at all: say so on the summary line
echo "false alarms: $(grep -c '^VIOLATION' $SV/out.txt)$(grep -q BROKEN $SV/out.txt && echo ' NOT-CHECKED (the patched tree does not load: port the patch)')"
rm -rf $D $SV
