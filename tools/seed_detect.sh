#!/bin/bash
# usage: seed_detect.sh <patch.diff>   — applies the patch to /repo, runs every registered check, undoes the patch.
# Evidence of these runs goes to a scratch directory, not to /verif/evidence.
set -u
P=$1
if [ -n "$(git -C /repo status --porcelain)" ]; then echo "REPO NOT CLEAN"; exit 2; fi
SV=/tmp/seedev; rm -rf $SV; mkdir -p $SV/evidence; cp /verif/known_findings.json $SV/; cp -r /verif/golden $SV/
git -C /repo apply --3way $P 2>/dev/null || git -C /repo apply $P || { echo "APPLY FAILED"; exit 2; }
/verif/bin/sodcheck -prop all -verif $SV > $SV/out.txt 2>&1
echo "exit=$?"
git -C /repo checkout -q -- . ; git -C /repo reset -q --hard HEAD
grep -E "^VIOLATION|^BROKEN" $SV/out.txt | sed 's/ replay=.*//' | sort | uniq -c
grep -A1 "^VIOLATION" $SV/out.txt | grep -v "^VIOLATION\|^--" | cut -c1-260 | head -12
