#!/usr/bin/env python3
"""Prints the markdown table of DESIGN.md section 9 from seeded/*/meta.json and notes.md."""
import json, glob, os, re
rows = []
for mf in sorted(glob.glob("/verif/seeded/*/meta.json")):
    d = json.load(open(mf)); name = d["name"]
    notes = open(os.path.dirname(mf) + "/notes.md").read() if os.path.exists(os.path.dirname(mf) + "/notes.md") else ""
    title = notes.strip().splitlines()[0].lstrip("# ").strip() if notes.strip() else ""
    title = re.sub(r"^C\d+\s*/\s*m\d\s*[—-]+\s*", "", title)
    own = d["breaks_property"]
    cb = d.get("caught_by", {})
    ownkeys = cb.get(own, [])
    rules = sorted({k.split("/")[0] for k in ownkeys})
    others = sorted(p for p in cb if p != own)
    rows.append(f"| {name} | {title[:110]} | {', '.join(rules) if rules else '—'} | {', '.join(others) if others else '—'} |")
print("| change | what it does (author's title) | caught by (own property's rules) | also reported by |")
print("|---|---|---|---|")
print("\n".join(rows))
