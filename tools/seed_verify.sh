#!/bin/bash
# usage: seed_verify.sh <seed dir containing patch.diff + demo_test.go> <name>
# Confirms a seeded mutant in its own scratch worktree: patch applies, library builds, existing suite passes,
# demo fails with the patch and passes without. Writes <seed dir>/verify.json. Removes the worktree afterwards.
set -u
export GOFLAGS=-mod=mod GOPROXY=off GOSUMDB=off GOTOOLCHAIN=local GOWORK=off
SD=$1; NAME=$2; WT=/tmp/wtv/$NAME
mkdir -p /tmp/wtv; git -C /repo worktree remove --force $WT 2>/dev/null
git -C /repo worktree add --detach $WT HEAD -q || exit 2
cd $WT
res() { echo "{\"name\":\"$NAME\",\"applies\":$1,\"builds\":$2,\"suite_pass\":$3,\"demo_fails_with\":$4,\"demo_passes_without\":$5,\"head\":\"$(git -C /repo rev-parse --short HEAD)\"}" > $SD/verify.json; cat $SD/verify.json; }
if ! git apply --3way $SD/patch.diff 2>/dev/null && ! git apply $SD/patch.diff; then res false false false false false; cd /; git -C /repo worktree remove --force $WT; exit 1; fi
B=true; go build ./... >/dev/null 2>&1 || B=false
S=false; if $B; then go test -vet=off -count=1 -timeout 25m . >/tmp/wtv/$NAME.suite.log 2>&1 && S=true; fi
cp $SD/demo_test.go $WT/zz_seeded_demo_test.go
DF=false; go test -vet=off -count=1 -timeout 10m -run 'TestSeeded_' . >/tmp/wtv/$NAME.demo_with.log 2>&1 || DF=true
git checkout -q -- . ; git reset -q --hard HEAD >/dev/null 2>&1; cp $SD/demo_test.go $WT/zz_seeded_demo_test.go
DP=false; go test -vet=off -count=1 -timeout 10m -run 'TestSeeded_' . >/tmp/wtv/$NAME.demo_without.log 2>&1 && DP=true
res true $B $S $DF $DP
cd /; rm -rf $WT/data; git -C /repo worktree remove --force $WT
