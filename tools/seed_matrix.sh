#!/bin/bash
# usage: seed_matrix.sh [name...] — applies each recorded seeded change to a scratch copy of /repo's sources, runs every
# check on it and rewrites the detection part of seeded/<name>/meta.json (caught_by: property -> violated obligation keys).
set -u
one() {
  m=$1
  D=$(mktemp -d /tmp/sa.XXXX); SV=$(mktemp -d /tmp/sv.XXXX)
  cp /repo/*.go /repo/go.mod /repo/go.sum $D/; mkdir -p $SV/evidence; cp /verif/known_findings.json $SV/; cp -r /verif/golden $SV/
  if ! ( cd $D && git apply /verif/seeded/$m/patch.diff ) 2>/dev/null; then echo "$m APPLY-FAILED"; rm -rf $D $SV; return; fi
  /verif/bin/sodcheck -prop all -repo $D -verif $SV > $SV/out.txt 2>&1
  python3 - "$m" "$SV/out.txt" <<'PY'
import json,re,sys,subprocess
m,out=sys.argv[1],sys.argv[2]
caught={}
for l in open(out):
    g=re.match(r"\s+(violated|undecided) \[((C\d+)\.[^\]]+)\]",l)
    if g: caught.setdefault(g.group(3),[])
    if g and g.group(2) not in caught[g.group(3)]: caught[g.group(3)].append(g.group(2))
broken=[l.strip() for l in open(out) if 'BROKEN' in l]
p=f"/verif/seeded/{m}/meta.json"; d=json.load(open(p))
d["repo_head_when_recorded"]=subprocess.run(["git","-C","/repo","rev-parse","--short","HEAD"],capture_output=True,text=True).stdout.strip()
d["patch_applied"]=True; d["caught_by"]=caught; d["detected"]=bool(caught)
own=d["breaks_property"]; d["caught_by_own_property"]= own in caught
if broken: d["broken"]=broken
json.dump(d,open(p,"w"),indent=1)
print(m, "own" if own in caught else "OWN-MISSED", {k:len(v) for k,v in caught.items()}, broken[:1])
PY
  rm -rf $D $SV
}
export -f one
if [ $# -gt 0 ]; then printf "%s\n" "$@"; else ls /verif/seeded; fi | xargs -P 6 -I{} bash -c 'one {}' | sort
