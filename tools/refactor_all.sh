#!/bin/bash
# usage: refactor_all.sh — every refactoring on file is applied to a scratch copy and all checks run on it; prints the alarms.
one() { n=$1; out=$(/verif/tools/refactor_check.sh /verif/refactorings/$n/patch.diff 2>&1); echo "$n $(echo "$out" | tail -n 1)"; echo "$out" | grep -E "^  (violated|undecided)" | cut -c1-260; }
export -f one
ls /verif/refactorings | xargs -P 4 -I{} bash -c 'one {}' 
