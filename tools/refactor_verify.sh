#!/bin/bash
# usage: refactor_verify.sh <name> — applies refactorings/<name>/patch.diff in a scratch worktree, builds, vets and runs the suite.
set -u
export GOFLAGS=-mod=mod GOPROXY=off GOSUMDB=off GOTOOLCHAIN=local GOWORK=off
N=$1; WT=/tmp/wtr/$N; mkdir -p /tmp/wtr; git -C /repo worktree remove --force $WT 2>/dev/null
git -C /repo worktree add --detach $WT HEAD -q || exit 2
cd $WT; A=true; git apply /verif/refactorings/$N/patch.diff || A=false
B=false; S=false
if $A; then go build ./... >/dev/null 2>&1 && B=true; fi
if $B; then go test -vet=off -count=1 -timeout 25m . >/tmp/wtr/$N.log 2>&1 && S=true; fi
if $B && ! $S; then go test -vet=off -count=1 -timeout 25m . >/tmp/wtr/$N.log 2>&1 && S=true; fi
echo "{\"name\":\"$N\",\"applies\":$A,\"builds\":$B,\"suite_pass\":$S,\"head\":\"$(git -C /repo rev-parse --short HEAD)\"}" | tee /verif/refactorings/$N/verify.json
cd /; rm -rf $WT/data; git -C /repo worktree remove --force $WT
