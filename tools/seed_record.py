#!/usr/bin/env python3
"""Records confirmed seeded mutants under /verif/seeded/<name>/ and which checks catch them.
usage: seed_record.py <src dir with patch.diff demo_test.go notes.md verify.json> <name> <property>
Detection is run on a private worktree with the patch applied (sodcheck -repo), evidence goes to a scratch dir."""
import json, os, subprocess, sys, shutil, re
src, name, prop = sys.argv[1], sys.argv[2], sys.argv[3]
dst = f"/verif/seeded/{name}"
os.makedirs(dst, exist_ok=True)
for f in ("patch.diff", "demo_test.go", "notes.md"):
    if os.path.exists(f"{src}/{f}"):
        shutil.copy(f"{src}/{f}", f"{dst}/{f}")
ver = json.load(open(f"{src}/verify.json")) if os.path.exists(f"{src}/verify.json") else {}
wt = f"/tmp/wtd/{name}"
subprocess.run(["git", "-C", "/repo", "worktree", "remove", "--force", wt], capture_output=True)
os.makedirs("/tmp/wtd", exist_ok=True)
subprocess.run(["git", "-C", "/repo", "worktree", "add", "--detach", wt, "HEAD", "-q"], check=True)
sv = f"/tmp/seedev-{name}"
shutil.rmtree(sv, ignore_errors=True); os.makedirs(sv + "/evidence")
shutil.copy("/verif/known_findings.json", sv); shutil.copytree("/verif/golden", sv + "/golden")
ap = subprocess.run(["git", "-C", wt, "apply", "--3way", f"{dst}/patch.diff"], capture_output=True, text=True)
if ap.returncode != 0:
    ap = subprocess.run(["git", "-C", wt, "apply", f"{dst}/patch.diff"], capture_output=True, text=True)
out = subprocess.run(["/verif/bin/sodcheck", "-prop", "all", "-repo", wt, "-verif", sv], capture_output=True, text=True)
caught = {}
cur = None
for l in out.stdout.splitlines():
    m = re.match(r"VIOLATION property=(C\d+)", l)
    if m:
        cur = m.group(1); continue
    m = re.match(r"\s+(violated|undecided) \[([^\]]+)\]", l)
    if m and cur:
        caught.setdefault(cur, []).append(m.group(2)); cur = None
subprocess.run(["git", "-C", "/repo", "worktree", "remove", "--force", wt], capture_output=True)
shutil.rmtree(sv, ignore_errors=True)
head = subprocess.run(["git", "-C", "/repo", "rev-parse", "--short", "HEAD"], capture_output=True, text=True).stdout.strip()
notes = open(f"{dst}/notes.md").read() if os.path.exists(f"{dst}/notes.md") else ""
meta = {
    "name": name, "breaks_property": prop, "origin": "independent sub-agent given only the property text and a scratch worktree",
    "repo_head_when_recorded": head,
    "needs_to_manifest": "see notes.md (written by the author of the change)",
    "confirmed": ver,
    "what_i_ran": [f"tools/seed_verify.sh {src} {name}  (scratch worktree: patch applies, go build, existing suite, demo with/without)",
                   "tools/seed_detect.sh <patch>  (git -C /repo apply; bin/sodcheck -prop all; git -C /repo checkout -- .)",
                   "tools/seed_record.py (same checks on a private worktree via -repo)"],
    "patch_applied": ap.returncode == 0,
    "caught_by": caught,
    "detected": bool(caught),
}
json.dump(meta, open(f"{dst}/meta.json", "w"), indent=1)
print(name, "caught_by", {k: len(v) for k, v in caught.items()})
