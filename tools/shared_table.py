#!/usr/bin/env python3
"""Regenerates the table of DESIGN.md §3.7 from checker/main.go (`sh(...)` entries of sharedRules)."""
import re
src = open('/verif/checker/main.go').read()
rows = []
for m in re.finditer(r'sh\("([^"]+)",\s*"([^"]+)",\s*"([^"]+)",\s*"((?:[^"\\]|\\.)*)"(?:,\s*"([^"]*)")?\)', src):
    frm, rule, as_, why, only = m.groups()
    is_ = rule
    if frm.startswith('fn:'):
        is_ += ' (function rule)'
    if only:
        is_ += ' [' + only + ']'
    rows.append((as_, is_, why.replace('\\"', '"')))
rows.sort()
tbl = ['| rule | is | needed by the borrower because |', '|------|----|--------------------------------|'] + ['| %s | %s | %s |' % r for r in rows]
d = open('/verif/DESIGN.md').read().split('\n')
i = next(k for k, l in enumerate(d) if l.startswith('| rule | is | needed by the borrower'))
j = i
while j < len(d) and d[j].startswith('|'):
    j += 1
d[i:j] = tbl
open('/verif/DESIGN.md', 'w').write('\n'.join(d))
print(len(rows), 'shared rules')
