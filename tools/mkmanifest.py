#!/usr/bin/env python3
"""Generates /verif/MANIFEST.json from the table below (single source of truth)."""
import json, os, sys

ENV = "GOFLAGS=-mod=mod GOPROXY=off GOSUMDB=off GOTOOLCHAIN=local GOWORK=off"
SETUP = f"cd /verif/checker && {ENV} go build -o /verif/bin/sodcheck ."
BASELINE_OFF = f"cd /repo && {ENV} go test -json -vet=off -count=1 -timeout 25m ./..."

# property -> (technique, level text, level note, design ref)
CLAIMED = {
 "C09": ("lock-state path analysis over go/ssa with virtual inlining (re-acquisition, balance, order, blocking-under-lock on every call path)",
         "Decides, for every call path from every exported entry point and spawned goroutine, that no lock (handle, store, map) is re-acquired by a goroutine that holds it, every acquire is released in the matching mode, the lock order is acyclic and no channel/sleep operation happens under the handle lock. This is the property's own quantifier ('every call path'); loop termination and OS blocking are not decided.",
         "Trusts go/ssa and the lock-wrapper recognition; assumes user hooks return and do not call back into the handle.", "DESIGN.md 4 C09"),
 "C08": ("lockset analysis over all call paths (go/ssa path enumeration with lock state; pairwise exclusion of every write context against every other context per shared field)",
         "Decides the race-freedom clause: for every field of shared index, schema, settings, schema-table, cache and pending-store memory, every write context reachable from any handle API entry point or the flusher goroutine is mutually excluded (handle lock, a common package mutex, or the container's own lock) from every other context touching the field; file mutations only under the write lock. Linearizability of results is NOT decided (needs histories and a sequential oracle); race freedom is a necessary condition of it.",
         "Trusts go/ssa, the fresh-object exemption (objects allocated/decoded in the current call tree are unpublished), and that a store/map lock held during an access is the accessed instance's lock.", "DESIGN.md 4 C08"),
 "C06": ("effect-order path analysis over go/ssa (NEVER-AFTER reject-source/mutation, MUST-BEFORE acceptance/mutation, per-iteration ITER) for all entry paths x 4 cache/async valuations",
         "Decides the 'no trace' ordering: on every abstract path of InsertOrUpdate and InsertOrUpdateMany, under all four cache/async valuations, no reject-class error source (Validate, uniqueness, wrong type, structure/descriptor mismatch, unknown key type/field, serialisation, decoding) can be reached after a mutation of index, cache, pending store, files or settings, and every mutation is preceded by successful schema acquisition, validation and uniqueness check. The storage-fault half (detectable by Control, restorable by Repair) is not decided here.",
         "Trusts go/ssa, the effect tables (which instruction is which effect), schema-table stability within one locked call, and three vetted-infeasible exemptions whose premises are themselves checked (C06.R3).", "DESIGN.md 4 C06"),
 "C15": ("effect-order path analysis over go/ssa (MUST-BEFORE Transform < case transforms < Validate < insertion, who-may-reach, per-iteration ITER)",
         "Decides that on every path of every insertion entry (single, batch; chunked goes through batch) and every cache/async valuation, Transform precedes the schema case transforms, both precede Validate, a successful Validate precedes every index/cache/pending/file insertion, no clone is taken before the transforms, failed validation returns ErrInvalidObject, and that no other exported entry can reach an accepting index insertion (Repair enumerated).",
         "Trusts go/ssa and the effect tables; hooks are recognised as invoke instructions on the Object interface.", "DESIGN.md 4 C15"),
 "C01": ("effect-completeness path analysis over go/ssa (AT-RETURN / ITER must-effects per cache x async x file-exists valuation), error-discipline scan, who-may-write check",
         "Decides structural necessary conditions of the CRUD refinement for all paths and all cache/async valuations: every successful write performed index insertion + cache/pending put or file write + commit; every delete (single, bulk, search) un-indexes, drops cache and pending entries, removes the file and commits; the read path caches only what it read; no storage/codec/package error is dropped; the uuid<->id maps have one owner and are written in pairs; fresh UUIDs are assigned only to objects without one. Field VALUES, JSON round trips and run-time enumeration completeness are not decided.",
         "Trusts go/ssa, the effect tables and call-level effects standing for presence-guarded primitives; schema-table stability within one locked call.", "DESIGN.md 4 C01"),
 "C04": ("commit-before-return path analysis (dirty bit) over all mutating entries; Close completeness (ITER); codec key-table sibling agreement; rehydration must-assign analysis; float64-detour dataflow scan",
         "Decides necessary conditions of restart-transparency: no synchronous mutator can return successfully with uncommitted index/settings changes; Close cancels, flushes and commits every schema without early exit; each custom codec writes exactly the keys it reads and the index tuple order agrees both ways; every non-serialised field is rebuilt before a loaded schema is published; no integer key or id passes through float64 on reload. Equality of full observation sets before/after reopen is not decided.",
         "Trusts go/ssa, encoding/json's documented key derivation (re-implemented for struct tags), and the effect tables.", "DESIGN.md 4 C04"),
 "C07": ("effect-order and per-iteration path analysis of the batch entry, loop-structure check on the variadic parameter, count dataflow, bulk plumbing def-use",
         "Decides the structure behind all-or-nothing batches: in InsertOrUpdateMany no reject source is reachable after a mutation, every iteration of the validating loop runs type check, Transform, case transforms, Validate, scratch-index insertion and live uniqueness check for its element, both loops cover the whole unsliced parameter, the count is 0 on every path without insertion and incremented once per accepted object; InsertOrUpdateBulk adds every batch count to the total, applies no batch after a failed one, and consumes the channel by one receive appended in order; scratch indexes never alias or replace live index memory.",
         "Trusts go/ssa, the effect tables and the vetted batch-protocol exemptions whose premises are checked (ITER).", "DESIGN.md 4 C07"),
 "C10": ("finite evaluation of the caching predicates; effect/lock path analysis of write, read, schema-acquisition, flusher, flush and delete entries under the async valuations",
         "Decides the structural half of async writes: async implies cached (truth table); accepted writes are in cache and pending store before return; lookups consult the cache before the file; the flusher starter is called on both schema-acquisition branches; the background flush runs under the write lock after re-checking the context; FlushAll/FlushAllAndCommit/Close always call flush (and commit); every iteration of the map flush writes and drops; a delete drops the pending entry. Timing (threshold/timeout firing in time) is not decided.",
         "Trusts go/ssa and the effect tables; per-type pending maps are assumed present for the 'what is pending gets flushed' rules.", "DESIGN.md 4 C10"),
 "C11": ("loop-structure and path analysis of the schema control, loader, Repair and Control (both set inclusions, ordering, publication under errors.Is valuations, NOT-REACH of object-file mutation)",
         "Decides the structure behind 'Control detects, Repair restores': the schema control has both inclusion loops, each able to report ErrIndexCorrupted after its membership lookup; the index-level control (ordering + size per field) runs before the directory is listed; a schema with a corrupted index is still published and returned with the error while any other load error publishes nothing; a membership miss leads straight to the corruption report; Repair never mutates object files, drops stale entries before it indexes files, decodes each file into a new object, indexes only after reading and through the constraint-checking insertion; Control() covers every loaded schema. The value-level 'if and only if' and search results after Repair are not decided.",
         "Trusts go/ssa, the effect tables and the recognition of the directory set (result of the function that lists the directory).", "DESIGN.md 4 C11"),
 "C17": ("effect-order path analysis (schema acquisition before any file mutation, publication gated by control, Create ordering under file-exists valuations), structural symmetry check of the descriptor comparisons, nil-fact analysis of settings dereferences",
         "Decides that no handle entry point (except Drop/Create) mutates a file on a path without a successfully acquired schema, that a loaded schema is published only after a successful control, that Create assigns settings and overwrites the schema file only after the compatibility check and writes a new schema file only when none exists, that the descriptor comparisons are symmetric, and that the async settings pointer is only dereferenced where known non-nil (goroutine closures are analysed with the facts of their spawn sites). Behaviour after a live settings switch is NOT decided beyond that.",
         "Trusts go/ssa and the effect tables; file-exists and errors.Is outcomes are explored as valuations.", "DESIGN.md 4 C17"),
 "C05": ("writer-local open/rename protocol analysis over all call paths; commit/write-before-ack path analysis; reachability of object reads from the integrity control",
         "Decides three structural necessary conditions of crash safety, NOT the enumeration of crash prefixes: (1) every function that opens a persistent file (object or schema) for writing returns success only after renaming (write-to-temporary + rename, never truncate in place); (2) a synchronous write is acknowledged only after the object file was written and the schema committed; (3) the writer and the compressor are closed before the rename; (4) a leftover temporary file is in the same directory and is not taken for an object file (finite evaluation of the naming and discovery functions); (5) whether the integrity control can see object content at all (it cannot: known finding, stale index entry after a crash inside an update).",
         "Trusts go/ssa and the effect tables; process-crash model (completed system calls persist in order); torn writes inside one system call are out of scope.", "DESIGN.md 4 C05"),
 "C12": ("parity rules: cache-before-disk path analysis for membership/lookup answers, error-class closure comparison of the two search evaluators, pattern-error flow, operator-guard table agreement, single-reader checks for the compression suffix / root / naming switch, finite evaluation of the file namer",
         "Decides four parity conditions necessary for configuration independence: Exist/Get/GetByUUID consult the cache before the object file when caching or async is on; the indexed and the scan evaluator report the same error classes, build a successful result only after validating the arguments, check the value's class independently of the collection's content, return pattern errors and cannot reach the operator panic (callers validate against the same literal set); the compressed suffix is consulted only by namer, writer and reader and the namer appends it iff Compress; root and lower-case switch have one reader. Equality of whole observation traces across configurations is not decided.",
         "Trusts go/ssa, the effect tables, and the finite evaluator's model of fmt.Sprintf for %s-only formats.", "DESIGN.md 4 C12"),
 "C02": ("finite abstract evaluation of the comparison core over {LT,EQ,GT} x 4 dynamic types x 9 functions (complete truth table); operator/normalisation table extraction and sibling agreement; dominance of the type guard; alias-write path analysis; structural plumbing checks",
         "Decides the parts of search correctness that are visible in the code's shape: the comparators and the scan evaluator equal the specification on all 4x3 type/ordering cases and all seven operators (exhaustive finite evaluation, 116 cells); the indexed dispatch, the scan comparator and the scan guard handle exactly the same seven operators with seven distinct range functions; the descriptor's cast agrees with the index constructor's normalisation for all 15 accepted Go types; the class guard dominates every comparator call; nothing appends or stores through an alias of the live index except the field index's own maintainers (an append whose result is stored back); a Search's result slice is provably non-nil (the refinements use nil to mean 'unconstrained'); And/Or/Len/Delete/Constrain are wired as specified. The arithmetic of the bisection and of the slice bounds in the range functions is NOT decided (needs loop invariants + solver).",
         "Trusts go/ssa and the finite evaluator (checker/eval.go); these comparators are the only way the bisection touches values.", "DESIGN.md 4 C02"),
 "C03": ("path analysis (check-before-write, accept-or-delete writers, canonicalise-before-check), per-iteration loop analysis of the all-fields check and the index delete, finite evaluation of the constraint decision table (24 cells), id-counter store check",
         "Decides: every write into the live index inside the accepting insertion follows a successful all-fields uniqueness check; the live index is written only by the accepting insertion and the index delete; the all-fields check consults every field index and cannot succeed early; the field-level decision equals 'unique and (>1 holder or 1 holder that is not the object itself)' on all 24 abstract cases; a delete releases every field and both membership entries; uniqueness is judged after case normalisation; ids only advance by +1. That the equal range found by bisection is the true set of equal entries is not decided.",
         "Trusts go/ssa, the finite evaluator with the equal-range search modelled as an input, and the effect tables.", "DESIGN.md 4 C03"),
 "C14": ("ownership analysis: clone-in (store operand is the clone call), clone-out (provenance path analysis of cached memory to results and heap stores), owner-only access, kind-switch coverage of the recursive clone, type-witness use",
         "Decides which API can hand out or retain a mutable reference to shared storage: the cache stores only results of the deep clone, cached memory never reaches a return value or a foreign heap store on any path, only the owner type touches the map, the deep clone has an unconditionally recursing arm for Ptr/Slice/Map/Struct/Array, the iterator allocates per element, and the schema's retained type witness is only used for its type. Value equality of a clone with a JSON round trip is not decided.",
         "Trusts go/ssa and the provenance tags of the path engine; unexported pointer fields are shared by documented design.", "DESIGN.md 4 C14"),
 "C20": ("freshness (alias) path analysis of every value stored into a Search's result field; who-may-write analysis of index entries; id-counter store check; structural dedup check",
         "Decides that a Search never holds a slice aliasing the live index on any path of any search entry (so later writes cannot change what it denotes), that index entries are immutable once published, that object ids are never reused at run time, and that the union dedups by object id. Nothing structural is left undecided; the decoder's counter arithmetic is not decided.",
         "Trusts go/ssa and the provenance tags (Live is closed under loads and sub-slicing; make/copy/append-to-fresh are fresh).", "DESIGN.md 4 C20"),
 "C13": ("structural SSA checks of the order-carrying chain (unconditional appends, cursor stepping under the reverse flag, append/limit pairing, limit>0 guard, One's constant limit, identity mapping of AssignIndex) and who-may-call sort/rand = empty",
         "Decides idiom-bound necessary conditions of result ordering: no hop between the index slice and the collected objects filters or reorders, nothing in the package sorts or shuffles, reversed() and next() step the cursor as specified and the collector flips the iterator exactly under the reverse flag before iterating, every appended object costs exactly one unit of limit under a limit>0 guard, the collector never truncates or re-slices the iterator's element list, One sets the limit to 1 and returns element 0 or the no-object error, AssignIndex maps element i to element i of a target of the same length. That the index slice itself is sorted (insert position arithmetic) and tie order are not decided.",
         "Trusts go/ssa; the rules recognise the loop idioms the package uses today (range loops, next() protocol): a rewrite outside these shapes is reported, not silently accepted.", "DESIGN.md 4 C13"),
 "C16": ("effect-order path analysis (case transforms between Transform and Validate/index/store; evaluators after value canonicalisation), finite evaluation of Transformer() and of the struct-tag parser over all tag words, guard dominance of the two case mappings",
         "Decides: on every insertion path the schema case transforms run after Transform and before Validate, indexing, caching and writing; both search evaluators are only called after the search value went through the field's case transform, and refinements only go through that dispatcher; Transformer() is upper||lower and the transformer list filters all descriptors by it; each tag word sets exactly the constraint with the same JSON key (unique also index); ToUpper/ToLower are each guarded by their own flag. Unicode idempotence of the standard mappings is not decided.",
         "Trusts go/ssa, the effect tables and the finite evaluator (strings.Split on a single tag word is modelled).", "DESIGN.md 4 C16"),
 "C18": ("format-descriptor extraction from the type-checked source compared with the descriptor frozen from the pinned release; static conformance of a corpus written by the pinned release (parsed as plain JSON/gzip) against the current descriptor; codec sibling agreement",
         "Decides that everything that determines the on-disk layout in the source is unchanged with respect to the pinned release: JSON keys/kinds of all persisted types on writer and reader side, index tuple layout, schema file name, default extension, compressed suffix, uuid pattern, file-name composition, 'object file = json.Marshal(object)', gzip iff compress; that file discovery inverts the namer for every name shape (finite evaluation); and that 4 collections written by the pinned release conform to the CURRENT reader tables and naming (keys known, required keys present, tuples match casts, one <uuid><ext>[.gz] file per indexed object). That legacy data decodes to the same values and searches identically is not decided (needs execution).",
         "Trusts go/types struct-tag handling re-implemented per encoding/json's documented rules; the golden files under /verif/golden.", "DESIGN.md 4 C18"),
 "C19": ("panic-site inventory over the functions reachable from the API and the decoders: explicit panics with a disposition table, unchecked type assertions and compiler-unproven bounds (gc's bounds-check-elimination listing as the oracle) on the data path with dominating-guard detection, nil tests of decoded pointers, error-before-result path analysis of Search methods",
         "Decides that no panic-capable construct on the data path (decoded schema content, directory entries, search arguments) is unguarded: every explicit panic reachable from the API is documented misuse, an internal invariant with a stated reason, vetted by another rule, or one of three known findings; every non-comma-ok type assertion on the data path is preceded by a checked one or vetted; every index/slice the compiler cannot prove in range is dominated by a length test of the same container or vetted; decoded nullable pointers are nil-tested; Search methods look at the search's error before its results. Hangs and panics that depend only on the bisection's internal arithmetic are not decided.",
         "Trusts go/ssa, the gc compiler's BCE pass (go build -gcflags=-d=ssa/check_bce/debug=1) and the disposition tables in checker/rules_panic.go (keyed by function; a new site is a violation).", "DESIGN.md 4 C19"),
}

# rules shared between checks (checker/main.go sharedRules): the borrowing property's level text gets this addendum
SHARED = {
 "C01": "Also enforces (shared with C14.R1/R2) that cache and pending entries are clones on the way in and on the way out.",
 "C03": "Also enforces (shared with C04.R4) that a schema is published only with its transformer list rebuilt, so uniqueness is judged on normalised values after a reopen; and that no insertion entry rolls an accepted replacement back by un-indexing.",
 "C04": "Also enforces (shared with C10.R7) that a delete drops the pending write of its object, so that no file of a deleted object is written after the fact.",
 "C05": "Also enforces that a stale temporary never blocks a later write (open flags), and (shared with C11.R6) that the schema control cannot succeed without both inclusion loops.",
 "C06": "Also enforces (shared with C05.R5) that a temporary left by a failed write is not taken for an object file by the integrity control, and that every validating iteration assigns the element its identifier.",
 "C07": "Also enforces (shared with C08.R3) that validation and insertion of a batch happen in one critical section.",
 "C09": "Also enforces (shared with C13.R6) that the iterator advances on every path, including read errors, which the bulk delete under the write lock relies on to terminate.",
 "C11": "Also enforces (shared with C18.R1, uuid pattern) that the file discovery accepts every identifier the write path can produce, that ordering/size failures are not of the repairable class, and that only %w-wrapped sentinels count as the error class.",
 "C15": "Also enforces (shared with C04.R4) that a schema is published only with its transformer list rebuilt.",
 "C16": "Also enforces (shared with C04.R4) that a schema is published only with its transformer list rebuilt.",
 "C08": "Also enforces (shared with C10.R5) that the flusher re-checks the context and flushes inside one write-locked section, and (C08.R3) that no live-index mutation relies on a verdict obtained before the handle lock was released.",
 "C12": "Also enforces (shared with C01.R2) that deletes evict cache and pending entries under every cache/async valuation, and that an empty constraint stays a constraint in both evaluators.",
 "C13": "Also enforces (shared with C02.R5) that nothing writes through a slice aliasing the live field index, that the sorted slice is only written by sorted insertion / compaction / reset / decoder, and that the iterator always advances.",
 "C17": "Also enforces (C17.R6) that Create never writes layout fields of the stored schema.",
 "C18": "Also enforces (shared with C16.R4) the struct-tag word to constraint-flag table of the pinned release, and (shared with C17.R6) that Create never changes Extension / Compress / Fields of a stored schema. The value-level directory-name mapping (camelToSnake) is not decided.",
 "C19": "Also enforces (shared with C17.R2, C11.R3, C11.R7, C02.R4) that a schema is published only after a successful control or a membership-corruption verdict, and that the class guard lies on every path to the comparators.",
 "C02": "Also enforces that the indexed pattern search returns only entries appended under a successful MatchString.",
}

NOT_BUILT = "check not built yet in this round (planned, see DESIGN.md section 4)"

def main():
    props = [json.loads(l) for l in open("/verif/properties.jsonl")]
    checks, na = [], []
    for p in props:
        pid = p["id"]
        if pid in CLAIMED:
            tech, text, note, ref = CLAIMED[pid]
            if pid in SHARED:
                text = text + " " + SHARED[pid]
            checks.append({
                "property_id": pid,
                "quick_cmd": f"bin/sodcheck -prop {pid} -tier quick",
                "thorough_cmd": f"bin/sodcheck -prop {pid} -tier thorough",
                "evidence_file": f"/verif/evidence/{pid}.json",
                "replay_cmd_template": "cat {path}",
                "engine": "sodcheck",
                "level_claimed": {"category": "other", "text": text, "design_ref": ref},
                "level_note": note,
                "technique": tech,
            })
        else:
            na.append({"property_id": pid, "reason": NA.get(pid, NOT_BUILT)})
    m = {
        "version": 1,
        "setup_cmd": SETUP,
        "hooks": {"guard": "verif", "enable": "none: the checks are static and need no instrumentation; no hook commits exist", "baseline_off_cmd": BASELINE_OFF, "source_commits": [], "add_only": True},
        "engines": [{"name": "sodcheck", "path": "/verif/checker", "serves_properties": sorted(CLAIMED), "kind_free_text": "purpose-built static analyser for 0xrawsec/sod on go/packages+go/ssa: abstract path enumeration with virtual inlining (effects, lock state, nil facts, provenance), alias/freshness analysis, panic-site inventory, table extraction and finite abstract evaluation"}],
        "checks": checks,
        "notes": "All checks are static analyses of /repo's current working tree; sod is never executed. Known findings: /verif/known_findings.json.",
        "not_applicable": na,
    }
    json.dump(m, open("/verif/MANIFEST.json", "w"), indent=1)
    print("checks:", len(checks), "not_applicable:", len(na))

NA = {}
if __name__ == "__main__":
    main()
