#!/bin/bash
# usage: seed_all.sh — every recorded seeded change under /verif/seeded is applied to a scratch copy of /repo's sources
# and the check of its own property is run on it: each must raise a VIOLATION (printed: "<id> caught|MISSED").
set -u
one() {
  m=$1; prop=${m%%-*}
  D=$(mktemp -d /tmp/sa.XXXX); SV=$(mktemp -d /tmp/sv.XXXX)
  cp /repo/*.go /repo/go.mod /repo/go.sum $D/; mkdir -p $SV/evidence; cp /verif/known_findings.json $SV/; cp -r /verif/golden $SV/
  if ! ( cd $D && git apply /verif/seeded/$m/patch.diff ) 2>/dev/null; then echo "$m APPLY-FAILED"; rm -rf $D $SV; return; fi
  /verif/bin/sodcheck -prop $prop -repo $D -verif $SV > $SV/out.txt 2>&1
  if grep -q "^VIOLATION property=$prop" $SV/out.txt; then echo "$m caught $(grep -c '^  violated' $SV/out.txt)"; else cp $SV/out.txt /tmp/seed_all_fail_$m.txt; echo "$m MISSED $(grep -E "BROKEN|undecided" $SV/out.txt | head -2)"; fi
  rm -rf $D $SV
}
export -f one
ls /verif/seeded | xargs -P 6 -I{} bash -c 'one {}' | sort
