package main

// Thorough tier: after the analysis of the current tree, replay the positive examples that are on file for the
// property — independently written seeded changes (/verif/seeded) and reverse repairs (the parent commit of every
// fix: recorded in known_findings.json) — and record whether the same check reports them. Each replay analyses a
// scratch copy of the sources in a subprocess (static analysis only; nothing is executed). A replay that is not
// detected is a recorded checker gap, not a property violation: it never changes the exit code.

import (
	"encoding/json"
	"fmt"
	"os"
	"os/exec"
	"path/filepath"
	"regexp"
	"sort"
	"strings"
	"sync"
)

type replayResult struct {
	Name     string   `json:"name"`
	Kind     string   `json:"kind"` // seeded | reverse-repair
	Detected bool     `json:"detected"`
	Keys     []string `json:"violated_keys,omitempty"`
	Note     string   `json:"note,omitempty"`
}

func copySources(from, to string) error {
	ents, err := os.ReadDir(from)
	if err != nil {
		return err
	}
	for _, e := range ents {
		n := e.Name()
		if e.IsDir() || !(strings.HasSuffix(n, ".go") || n == "go.mod" || n == "go.sum") {
			continue
		}
		b, err := os.ReadFile(filepath.Join(from, n))
		if err != nil {
			return err
		}
		if err := os.WriteFile(filepath.Join(to, n), b, 0o644); err != nil {
			return err
		}
	}
	return nil
}

var reKey = regexp.MustCompile(`^\s+(violated|undecided) \[([^\]]+)\]`)

func runReplay(self, prop, dir, knownFile string) ([]string, string) {
	sv, err := os.MkdirTemp("", "sodsv-verif")
	if err != nil {
		return nil, err.Error()
	}
	defer os.RemoveAll(sv)
	os.MkdirAll(filepath.Join(sv, "evidence"), 0o755)
	if b, err := os.ReadFile(knownFile); err == nil {
		os.WriteFile(filepath.Join(sv, "known_findings.json"), b, 0o644)
	}
	// golden files for C18
	for _, g := range []string{"golden"} {
		exec.Command("cp", "-r", filepath.Join(filepath.Dir(knownFile), g), sv).Run()
	}
	cmd := exec.Command(self, "-prop", prop, "-repo", dir, "-verif", sv, "-tier", "quick")
	out, _ := cmd.CombinedOutput()
	var keys []string
	for _, l := range strings.Split(string(out), "\n") {
		if m := reKey.FindStringSubmatch(l); m != nil {
			keys = append(keys, m[2])
		}
	}
	note := ""
	if strings.Contains(string(out), "BROKEN CHECK") {
		note = "replay did not load: " + strings.TrimSpace(string(out))
		if len(note) > 300 {
			note = note[:300]
		}
	}
	return keys, note
}

func selfValidate(prop string, r *Result, repo, verif string) {
	self, err := os.Executable()
	if err != nil {
		r.Extra["self_validation"] = "unavailable: " + err.Error()
		return
	}
	knownFile := filepath.Join(verif, "known_findings.json")
	type job struct {
		name, kind string
		prepare    func(dir string) error
		wantKey    string
		negative   bool // behaviour-preserving refactoring: the check must stay silent
	}
	var jobs []job
	// seeded changes on file for this property
	dirs, _ := filepath.Glob(filepath.Join(verif, "seeded", "*", "meta.json"))
	sort.Strings(dirs)
	for _, mf := range dirs {
		b, err := os.ReadFile(mf)
		if err != nil {
			continue
		}
		var meta struct {
			Name     string              `json:"name"`
			Breaks   string              `json:"breaks_property"`
			CaughtBy map[string][]string `json:"caught_by"`
		}
		if json.Unmarshal(b, &meta) != nil {
			continue
		}
		if _, ok := meta.CaughtBy[prop]; !ok && meta.Breaks != prop {
			continue
		}
		patch := filepath.Join(filepath.Dir(mf), "patch.diff")
		jobs = append(jobs, job{name: meta.Name, kind: "seeded", prepare: func(dir string) error {
			if err := copySources(repo, dir); err != nil {
				return err
			}
			cmd := exec.Command("git", "apply", patch)
			cmd.Dir = dir
			if out, err := cmd.CombinedOutput(); err != nil {
				return fmt.Errorf("patch does not apply to the current tree: %s", strings.TrimSpace(string(out)))
			}
			return nil
		}})
	}
	// behaviour-preserving refactorings on file (negative examples: any report on them is a false alarm of the checker)
	rdirs, _ := filepath.Glob(filepath.Join(verif, "refactorings", "*", "patch.diff"))
	sort.Strings(rdirs)
	for _, patch := range rdirs {
		patch := patch
		jobs = append(jobs, job{name: filepath.Base(filepath.Dir(patch)), kind: "refactoring", negative: true, prepare: func(dir string) error {
			if err := copySources(repo, dir); err != nil {
				return err
			}
			cmd := exec.Command("git", "apply", patch)
			cmd.Dir = dir
			if out, err := cmd.CombinedOutput(); err != nil {
				return fmt.Errorf("patch does not apply to the current tree: %s", strings.TrimSpace(string(out)))
			}
			return nil
		}})
	}
	// reverse repairs
	for _, k := range loadKnown(knownFile) {
		if k.Property != prop || k.Status != "fixed" || k.Commit == "" {
			continue
		}
		k := k
		jobs = append(jobs, job{name: "parent of fix " + k.Commit, kind: "reverse-repair", wantKey: k.Key, prepare: func(dir string) error {
			cmd := exec.Command("sh", "-c", fmt.Sprintf("git -C %q archive %s^ | tar -x -C %q --wildcards '*.go' go.mod go.sum", repo, k.Commit, dir))
			if out, err := cmd.CombinedOutput(); err != nil {
				return fmt.Errorf("cannot extract %s^: %s", k.Commit, strings.TrimSpace(string(out)))
			}
			os.RemoveAll(filepath.Join(dir, "examples"))
			return nil
		}})
	}
	results := make([]replayResult, len(jobs))
	var wg sync.WaitGroup
	sem := make(chan struct{}, 6)
	for i, j := range jobs {
		i, j := i, j
		wg.Add(1)
		sem <- struct{}{}
		go func() {
			defer wg.Done()
			defer func() { <-sem }()
			res := replayResult{Name: j.name, Kind: j.kind}
			dir, err := os.MkdirTemp("", "sodsv-src")
			if err != nil {
				res.Note = err.Error()
				results[i] = res
				return
			}
			defer os.RemoveAll(dir)
			if err := j.prepare(dir); err != nil {
				res.Note = err.Error()
				results[i] = res
				return
			}
			keys, note := runReplay(self, prop, dir, knownFile)
			res.Note = note
			if len(keys) > 6 {
				res.Keys = keys[:6]
			} else {
				res.Keys = keys
			}
			if j.negative {
				res.Kind = "refactoring"
				res.Detected = len(keys) > 0 // here: a false alarm
			} else if j.wantKey != "" {
				for _, k := range keys {
					if k == j.wantKey {
						res.Detected = true
					}
				}
				if !res.Detected && len(keys) > 0 {
					res.Detected = true
					res.Note = strings.TrimSpace(res.Note + " reported under other keys than the recorded one")
				}
			} else {
				res.Detected = len(keys) > 0
			}
			results[i] = res
		}()
	}
	wg.Wait()
	det := 0
	var missed []string
	var falseAlarms []string
	nNeg := 0
	var notReplayed []string
	for _, x := range results {
		if x.Kind == "refactoring" {
			if x.Note != "" && !x.Detected {
				// does not apply to (or no longer compiles on) this tree: the example has to be ported, it shows nothing
				notReplayed = append(notReplayed, x.Name)
				continue
			}
			nNeg++
			if x.Detected {
				falseAlarms = append(falseAlarms, x.Name)
			}
			continue
		}
		if x.Detected {
			det++
		} else {
			missed = append(missed, x.Name)
		}
	}
	r.Extra["self_validation"] = map[string]interface{}{
		"what":                     "replay of the positive examples on file for this property (seeded changes by independent sub-agents, parents of fix commits) through the same check, each on a scratch copy of the sources; not detected = recorded checker gap, never an alarm",
		"replayed":                 len(results) - nNeg - len(notReplayed),
		"negative_not_replayed":    notReplayed,
		"detected":                 det,
		"missed":                   missed,
		"negative_examples":        nNeg,
		"negative_examples_what":   "behaviour-preserving refactorings written by independent sub-agents (/verif/refactorings), applied to a scratch copy: the check must report nothing on them",
		"false_alarms_on_negative": falseAlarms,
		"results":                  results,
	}
	fmt.Printf("%s: self-validation replayed %d positive examples, %d detected, missed %v; %d refactorings, false alarms %v, not replayed (patch to be ported) %v\n", prop, len(results)-nNeg-len(notReplayed), det, missed, nNeg, falseAlarms, notReplayed)
}
