package main

import (
	"fmt"
	"go/types"
	"strings"

	"golang.org/x/tools/go/ssa"
)

// ---- C03 ------------------------------------------------------------------------------

func checkC03(p *Prog, r *Result, tier string) {
	r.Rule("C03.R1", "check all before touching any: every write into a field index of the live object index that happens inside the accepting insertion is preceded on its path by a successful uniqueness check of all fields against the live index; the check visits every field index (ITER) and cannot be left early with success", 3)
	r.Rule("C03.R2", "nothing enters the live index unchecked: every write into the live object index on any handle entry happens either inside the accepting insertion (after the check) or inside the index delete", 3)
	r.Rule("C03.R3", "decision table of the field-level constraint check (finite evaluation over unique x |equal range| in {0,1,>=2} x exists x same id): the uniqueness error is returned iff unique and (more than one holder, or one holder that is not the object itself)", 1)
	r.Rule("C03.R4", "a delete releases every field: the index delete visits every field index with the field-level delete and removes both membership entries, without early exit", 2)
	r.Rule("C03.R5", "the canonical value is what is checked: on insertion entries the accepting insertion is called only after the case transforms (shared with C15/C16)", 2)
	r.Rule("C03.R8", "an accepted replacement is not undone by un-indexing: on the insertion entries no path un-indexes an object after the accepting insertion of the live index returned (for an update the previous entries would be lost while the previous file stays; expected count 0: no roll-back by un-indexing exists)", 0)
	r.Rule("C03.R9", "every unique field has a field index: the function that builds the object index from the descriptors reads the Unique flag (not only the Index flag) when it decides which fields get a field index; a unique field without one has nothing to be checked against (custom schemas can set Unique without Index)", 1)
	checkIndexCtorConsultsUnique(p, r, "C03.R9")
	r.Rule("C03.R7", "object ids are never reused at run time (shared with C20.R3)", 1)
	r.NotDecided = []string{"that the equal range computed by bisection contains exactly the equal entries (C02, not decided)", "that the decoder restores the id counter past the maximum", "equality semantics of values"}
	c := computeClosures(p)
	a := p.A

	// R1 + R2 + R5
	var jobs []exploreJob
	for _, f := range apiRoots(p) {
		if f.Parent() == nil && c.Of(f).Has(EIdxWLive) {
			jobs = append(jobs, exploreJob{f, Valuation{Cache: triNo, Async: triNo}})
			r.Entries = append(r.Entries, FuncName(f))
		}
	}
	isAccept := func(f *ssa.Function) bool {
		return f.Signature.Recv() != nil && named(f.Signature.Recv().Type()) == a.ObjIndex && c.Of(f).Has(EErrUnique) && c.own[f].Union(c.Of(f)).Has(EIdxWLive)
	}
	isUnindex := func(f *ssa.Function) bool {
		return f.Signature.Recv() != nil && named(f.Signature.Recv().Type()) == a.ObjIndex && !c.Of(f).Has(EErrUnique) && c.Of(f).Has(EIdxWLive) && p.IsIndexDelete(f)
	}
	exploreAll(p, c, jobs, effs(EOkUniqLive, ECanon, EHookT), r, func(j exploreJob) Listener {
		return &effListener{p: p, r: r, root: j.root, val: j.val, onEvent: func(l *effListener, x *Explorer, st *State, ev *Event) {
			switch {
			case ev.Kind == EvEffect && ev.Eff == EIdxWLive:
				fn := FuncName(st.top().fn)
				where := l.p.Pos(ev.Instr.Pos())
				inAccept, inUnindex := false, false
				for _, fr := range st.frames {
					if isAccept(fr.fn) {
						inAccept = true
					} else if isUnindex(fr.fn) {
						inUnindex = true
					}
				}
				switch {
				case inAccept:
					if st.must.Has(EOkUniqLive) {
						l.ok("C03.R1", fn, "live index write after the all-fields check", where)
					} else {
						l.bad("C03.R1", fn, "live index write after the all-fields check", "a field index of the live object index is modified before the uniqueness check of all fields succeeded: a conflict found later leaves the indexes inconsistent, or a duplicate gets in", where, x, st, ev.Instr)
					}
					l.ok("C03.R2", fn, "live index writer is accept or delete", where)
				case inUnindex:
					l.ok("C03.R2", fn, "live index writer is accept or delete", where)
					// R8: only on the insertion entries (hooks run there)
					if c.Of(l.root).Has(EHookV) {
						if st.User&4 != 0 {
							l.bad("C03.R8", FuncName(l.root), "no un-indexing after the accepting insertion", "an insertion entry un-indexes the object after the accepting insertion replaced its entries (a roll-back): when the object was already stored, its previous entries are gone while its previous file stays, another object can then take its unique values", where, x, st, ev.Instr)
						} else {
							l.ok("C03.R8", FuncName(l.root), "no un-indexing after the accepting insertion", where)
						}
					}
				default:
					l.bad("C03.R2", fn, "live index writer is accept or delete", "the live object index is modified outside the accepting insertion and the index delete: a value can enter the index without the uniqueness check", where, x, st, ev.Instr)
				}
			case ev.Kind == EvCallRet && isAccept(ev.Callee):
				if len(st.frames) > 0 {
					args := ev.Instr.(ssa.CallInstruction).Common().Args
					if len(args) > 0 && x.tagsOf(st, args[0])&TLive != 0 {
						st.User |= 4
					}
				}
			case ev.Kind == EvCall && isAccept(ev.Callee):
				// R5 only where hooks run (insertion entries)
				if c.Of(l.root).Has(EHookV) {
					args := ev.Instr.(ssa.CallInstruction).Common().Args
					if len(args) > 0 && x.tagsOf(st, args[0])&TLive != 0 {
						if st.must.Has(ECanon) {
							l.ok("C03.R5", FuncName(l.root), "accepting insertion after the case transforms", l.p.Pos(ev.Instr.Pos()))
						} else {
							l.bad("C03.R5", FuncName(l.root), "accepting insertion after the case transforms", "uniqueness is judged on a value that was not case-normalised yet", l.p.Pos(ev.Instr.Pos()), x, st, ev.Instr)
						}
					}
				}
			}
		}}
	}, nil)
	// the all-fields check: every iteration consults the field-level check; success only after the loop ended
	if sa := p.FuncByName(a.ObjIndex.Obj().Name() + ".satisfyAll"); sa != nil {
		n := exploreLoops(p, c, r, sa, func(lp natLoop, cl EffSet) bool { return cl.Has(EErrUnique) }, []Valuation{{}}, effs(EErrUnique),
			func(lp natLoop, idx int, val Valuation) *effListener {
				l := &effListener{p: p, r: r, root: sa, val: val}
				l.onEvent = func(l *effListener, x *Explorer, st *State, ev *Event) {
					if ev.Kind == EvCall && st.trackIter && ev.Callee.Signature.Recv() != nil && named(ev.Callee.Signature.Recv().Type()) == a.FieldIndex && c.Of(ev.Callee).Has(EErrUnique) {
						st.User |= 1
					}
				}
				l.onEnd = func(l *effListener, x *Explorer, st *State, reason string) {
					if reason != "backedge" {
						return
					}
					if st.User&1 != 0 {
						l.ok("C03.R1", FuncName(sa), "every field index is checked", "")
					} else {
						l.bad("C03.R1", FuncName(sa), "every field index is checked", "an iteration of the all-fields check continues without consulting the field-level constraint check: that field's uniqueness is not enforced", "", x, st, nil)
					}
				}
				l.onReturn = func(l *effListener, x *Explorer, st *State, ret *ssa.Return, res []Fact) {
					if st.trackIter {
						if e, _ := errResult(sa, res); e != triNo {
							l.bad("C03.R1", FuncName(sa), "no early success", "the all-fields check can return success from inside its loop, before the remaining fields were checked", l.p.Pos(ret.Pos()), x, st, ret)
						}
					}
				}
				return l
			}, nil)
		if n == 0 {
			r.Report("C03.R1", FuncName(sa), "every field index is checked", Violated, "the all-fields check has no loop over the field indexes", p.Pos(sa.Pos()), nil, true)
		} else {
			r.Report("C03.R1", FuncName(sa), "no early success", Discharged, "reported as violated if a successful return inside the loop is found", p.Pos(sa.Pos()), nil, true)
		}
	} else {
		r.Report("C03.R1", "objIndex.satisfyAll", "function", Undecided, "all-fields check not found", "", nil, false)
	}

	checkSatisfyTable(p, r, "C03.R3")

	// R4
	var unidx *ssa.Function
	for _, f := range p.Funcs {
		if f.Parent() == nil && isUnindex(f) && c.own[f].Has(EIdxWLive) {
			unidx = f
		}
	}
	if unidx == nil {
		r.Report("C03.R4", "-", "index delete", Undecided, "index delete function not found", "", nil, false)
	} else {
		del := map[*types.Var]bool{}
		for _, b := range unidx.Blocks {
			for _, in := range b.Instrs {
				if call, ok := in.(*ssa.Call); ok {
					if bi, ok := call.Call.Value.(*ssa.Builtin); ok && bi.Name() == "delete" {
						if n, f, _ := loadedField(call.Call.Args[0]); n == a.ObjIndex {
							del[f] = true
						}
					}
				}
			}
		}
		if del[a.OIUuids] && del[a.OIObjectIds] {
			r.Report("C03.R4", FuncName(unidx), "both membership entries removed", Discharged, "", p.Pos(unidx.Pos()), nil, true)
		} else {
			r.Report("C03.R4", FuncName(unidx), "both membership entries removed", Violated, "the index delete does not remove the object from both membership maps", p.Pos(unidx.Pos()), nil, true)
		}
		n := exploreLoops(p, c, r, unidx, func(lp natLoop, cl EffSet) bool { return cl.Has(EIdxWLive) }, []Valuation{{}}, EffSet{},
			func(lp natLoop, idx int, val Valuation) *effListener {
				l := &effListener{p: p, r: r, root: unidx, val: val}
				l.onEvent = func(l *effListener, x *Explorer, st *State, ev *Event) {
					if ev.Kind == EvCall && st.trackIter && ev.Callee.Signature.Recv() != nil && named(ev.Callee.Signature.Recv().Type()) == a.FieldIndex && c.Of(ev.Callee).Has(EIdxWLive) {
						st.User |= 1
					}
				}
				l.onEnd = func(l *effListener, x *Explorer, st *State, reason string) {
					if reason != "backedge" {
						return
					}
					if st.User&1 != 0 {
						l.ok("C03.R4", FuncName(unidx), "every field index releases the object", "")
					} else {
						l.bad("C03.R4", FuncName(unidx), "every field index releases the object", "an iteration of the index delete skips the field-level delete: the value stays reserved in that field", "", x, st, nil)
					}
				}
				l.onReturn = func(l *effListener, x *Explorer, st *State, ret *ssa.Return, res []Fact) {
					if st.trackIter {
						l.bad("C03.R4", FuncName(unidx), "no early exit", "the index delete can return from inside its loop over the field indexes", l.p.Pos(ret.Pos()), x, st, ret)
					}
				}
				return l
			}, nil)
		if n == 0 {
			r.Report("C03.R4", FuncName(unidx), "every field index releases the object", Violated, "the index delete has no loop over the field indexes", p.Pos(unidx.Pos()), nil, true)
		}
	}
	checkIDCounter(p, r, "C03.R7")
}

func init() { register("C03", checkC03) }

// checkSatisfyTable: decision table of fieldIndex.Satisfy.
func checkSatisfyTable(p *Prog, r *Result, rule string) {
	a := p.A
	fn := p.FuncByName(a.FieldIndex.Obj().Name() + ".Satisfy")
	if fn == nil {
		r.Report(rule, "fieldIndex.Satisfy", "decision table", Undecided, "field-level constraint check not found", "", nil, false)
		return
	}
	cons := named(a.FIConstraints.Type())
	cells := 0
	var bad []string
	for _, unique := range []bool{false, true} {
		for n := 0; n <= 2; n++ {
			for _, exist := range []bool{false, true} {
				for _, same := range []bool{false, true} {
					cells++
					const objid = 7
					env := &EvalEnv{P: p}
					env.CallHook = func(callee *ssa.Function, args []AV) ([]AV, bool) {
						// the equal-range search is modelled: it returns n entries, the first held by objid or by someone else
						if callee != nil && callee.Signature.Recv() != nil && named(callee.Signature.Recv().Type()) == a.FieldIndex && callee.Signature.Results().Len() == 1 {
							if _, ok := callee.Signature.Results().At(0).Type().Underlying().(*types.Slice); ok {
								var elems []AV
								for i := 0; i < n; i++ {
									id := int64(objid + 1 + i)
									if i == 0 && same {
										id = objid
									}
									elems = append(elems, AV{K: avPtr, Obj: newAObj(a.IndexedField, map[string]AV{a.IFObjectId.Name(): avI(id)})})
								}
								return []AV{{K: avSlice, Elems: elems}}, true
							}
						}
						return nil, false
					}
					recv := AV{K: avPtr, Obj: newAObj(a.FieldIndex, map[string]AV{
						a.FIConstraints.Name(): {K: avStruct, Obj: newAObj(cons, map[string]AV{"Unique": avB(unique)})},
					})}
					res, out := env.Eval(fn, []AV{recv, avI(objid), avB(exist), {K: avPtr, Obj: newAObj(a.IndexedField, nil)}}, 0)
					want := unique && (n >= 2 || (n == 1 && !(exist && same)))
					desc := fmt.Sprintf("unique=%v |equals|=%d exist=%v sameId=%v", unique, n, exist, same)
					if out != "return" || len(res) != 1 {
						r.Report(rule, FuncName(fn), "decision table", Undecided, "finite evaluation failed at "+desc+": "+out+" "+env.Why, p.Pos(fn.Pos()), nil, true)
						return
					}
					got := res[0].K == avErr && res[0].S == "ErrConstraintUnique"
					if res[0].K != avErr && res[0].K != avNil {
						bad = append(bad, desc+" -> "+res[0].String())
					} else if got != want {
						bad = append(bad, fmt.Sprintf("%s -> rejected=%v (spec %v)", desc, got, want))
					}
				}
			}
		}
	}
	r.Evaluations += cells
	if len(bad) == 0 {
		r.Report(rule, FuncName(fn), "decision table", Discharged, fmt.Sprintf("%d cells equal the specification", cells), p.Pos(fn.Pos()), nil, true)
	} else {
		r.Report(rule, FuncName(fn), "decision table", Violated, "the constraint check differs from the specification (re-save rejected, or a duplicate accepted) at: "+strings.Join(bad, "; "), p.Pos(fn.Pos()), nil, true)
	}
	r.Extra["satisfy_cells"] = cells
}

// checkIndexCtorConsultsUnique: the constructor of the object index (the function that fills objIndex.Fields from a
// descriptor map with fresh field indexes) reads Constraints.Unique, itself or through a helper.
func checkIndexCtorConsultsUnique(p *Prog, r *Result, rule string) {
	a := p.A
	cons := named(a.FIConstraints.Type())
	var uniq *types.Var
	if st := structOf(cons); st != nil {
		for i := 0; i < st.NumFields(); i++ {
			if st.Field(i).Name() == "Unique" {
				uniq = st.Field(i)
			}
		}
	}
	if uniq == nil {
		r.Report(rule, "-", "Unique constraint", Undecided, "constraint flag Unique not found", "", nil, false)
		return
	}
	n := 0
	for _, fn := range p.Funcs {
		if !inSod(p, fn) || fn.Parent() != nil || fn.Signature.Results().Len() != 1 || named(fn.Signature.Results().At(0).Type()) != a.ObjIndex {
			continue
		}
		// fills the Fields map of a fresh object index inside a loop over descriptors
		fills := false
		for _, b := range fn.Blocks {
			for _, in := range b.Instrs {
				if mu, ok := in.(*ssa.MapUpdate); ok {
					if _, f, _ := loadedField(mu.Map); f == a.OIFields {
						fills = true
					}
				}
			}
		}
		if !fills {
			continue
		}
		n++
		reads := false
		for _, g := range calleesWithin(p, fn, 1) {
			for _, b := range g.Blocks {
				for _, in := range b.Instrs {
					switch v := in.(type) {
					case *ssa.FieldAddr:
						if _, f, _ := fieldOf(v); f == uniq {
							reads = true
						}
					case *ssa.Field:
						if _, f, _ := fieldOf(v); f == uniq {
							reads = true
						}
					}
				}
			}
		}
		if reads {
			r.Report(rule, FuncName(fn), "field indexes are built for unique fields too", Discharged, "", p.Pos(fn.Pos()), nil, true)
		} else {
			r.Report(rule, FuncName(fn), "field indexes are built for unique fields too", Violated, "the constructor of the object index does not look at the Unique constraint: a field declared unique without the index flag (custom schema) gets no field index and duplicates are accepted silently", p.Pos(fn.Pos()), nil, true)
		}
	}
	if n == 0 {
		r.Report(rule, "-", "constructor of the object index", Undecided, "no function fills the field-index map of a new object index", "", nil, false)
	}
}
