package main

import (
	"fmt"
	"go/token"
	"go/types"

	"golang.org/x/tools/go/ssa"
)

func zeroFact(t types.Type) Fact {
	f := Fact{}
	if isPointerLike(t) {
		f.Nil = triYes
	}
	if b, ok := t.Underlying().(*types.Basic); ok && b.Info()&types.IsBoolean != 0 {
		f.Bool = triNo
	}
	if b, ok := t.Underlying().(*types.Basic); ok && b.Info()&types.IsInteger != 0 {
		f.Zero = true
	}
	return f
}

func isErrorType(t types.Type) bool {
	return t.String() == "error"
}

// bindValue binds dst (in the top frame) to the abstract value of src.
func (x *Explorer) bindValue(st *State, dst ssa.Value, src ssa.Value) {
	switch src.(type) {
	case *ssa.Const, *ssa.Global, *ssa.Function:
		f := st.factOf(src)
		f.Tags |= x.tagsOf(st, src)
		st.define(dst, f)
	default:
		s := st.symOf(src)
		if _, ok := st.facts[s]; !ok {
			st.facts[s] = Fact{}
		}
		st.alias(dst, s)
	}
}

func (x *Explorer) step(st *State, in ssa.Instruction) bool {
	fr := st.top()
	switch v := in.(type) {
	case *ssa.DebugRef:
		fr.pc++
	case *ssa.Alloc:
		st.define(v, Fact{Nil: triNo, Tags: TFresh})
		if isCellAlloc(v) {
			et := v.Type().Underlying().(*types.Pointer).Elem()
			cs := Sym{d: st.depth(), i: 1, v: v}
			st.facts[cs] = zeroFact(et)
			st.cells[vkey{st.depth(), v}] = cs
		}
		fr.pc++
	case *ssa.MakeMap, *ssa.MakeSlice, *ssa.MakeChan:
		st.define(v.(ssa.Value), Fact{Nil: triNo, Tags: TFresh})
		fr.pc++
	case *ssa.MakeClosure:
		st.define(v, Fact{Nil: triNo, Tags: TFresh})
		fr.pc++
	case *ssa.MakeInterface:
		if isErrorType(v.Type()) || !isPointerLike(v.X.Type()) {
			st.define(v, Fact{Nil: triNo, Tags: x.tagsOf(st, v.X)})
		} else {
			x.bindValue(st, v, v.X)
		}
		fr.pc++
	case *ssa.ChangeInterface:
		x.bindValue(st, v, v.X)
		fr.pc++
	case *ssa.ChangeType:
		x.bindValue(st, v, v.X)
		fr.pc++
	case *ssa.Convert:
		st.define(v, Fact{Tags: x.tagsOf(st, v.X) & closedTags})
		fr.pc++
	case *ssa.MultiConvert:
		st.define(v, Fact{Tags: x.tagsOf(st, v.X) & closedTags})
		fr.pc++
	case *ssa.SliceToArrayPointer:
		x.bindValue(st, v, v.X)
		fr.pc++
	case *ssa.FieldAddr:
		x.bindValue(st, v, v.X)
		fr.pc++
	case *ssa.IndexAddr:
		x.bindValue(st, v, v.X)
		fr.pc++
	case *ssa.Slice:
		x.accessOfLoadedContainer(st, v, v.X, false)
		if _, isPtr := v.X.Type().Underlying().(*types.Pointer); isPtr {
			x.bindValue(st, v, v.X)
		} else {
			f := st.factOf(v.X)
			if isZeroConst(v.Max) && (v.High == nil || isZeroConst(v.High)) {
				// x[:0:0]: no element and no capacity: nothing of x can be read or written through it and any
				// append to it allocates; nil exactly when x is (the clone idiom append(x[:0:0], x...))
				st.define(v, Fact{Nil: f.Nil, Tags: TFresh})
			} else {
				st.define(v, Fact{Nil: f.Nil, Tags: f.Tags})
			}
		}
		fr.pc++
	case *ssa.Field:
		bt := x.tagsOf(st, v.X)
		st.define(v, Fact{Tags: x.loadTags(bt, v.X.Type(), v.Type()) | x.fieldTags(v.X.Type(), v.Field)})
		x.accessField(st, v, v.X, v.Field, false)
		fr.pc++
	case *ssa.Index:
		bt := x.tagsOf(st, v.X)
		st.define(v, Fact{Tags: x.loadTags(bt, v.X.Type(), v.Type())})
		fr.pc++
	case *ssa.Lookup:
		x.stepLookup(st, v)
		fr.pc++
	case *ssa.Range:
		mt := x.tagsOf(st, v.X)
		st.define(v, Fact{Tags: mt})
		x.mapEvent(st, v, v.X, "range")
		fr.pc++
	case *ssa.Next:
		st.define(v, Fact{})
		d := st.depth()
		var tags Tag
		var bt types.Type
		if r, ok := v.Iter.(*ssa.Range); ok {
			tags = x.tagsOf(st, v.Iter)
			bt = r.X.Type()
		}
		tup := v.Type().(*types.Tuple)
		for i := 0; i < tup.Len(); i++ {
			f := Fact{}
			if i > 0 && bt != nil {
				f.Tags = x.loadTags(tags, bt, tup.At(i).Type())
			}
			st.facts[Sym{d: d, i: int32(i + 1), v: v}] = f
		}
		fr.pc++
	case *ssa.Extract:
		ts := st.symOf(v.Tuple)
		es := Sym{d: ts.d, i: int32(v.Index + 1), v: ts.v}
		if _, ok := st.facts[es]; !ok {
			st.facts[es] = Fact{}
		}
		st.alias(v, es)
		fr.pc++
	case *ssa.TypeAssert:
		if v.CommaOk {
			st.define(v, Fact{})
			d := st.depth()
			f := st.factOf(v.X)
			st.facts[Sym{d: d, i: 1, v: v}] = Fact{Tags: f.Tags}
			st.facts[Sym{d: d, i: 2, v: v}] = Fact{}
		} else {
			f := st.factOf(v.X)
			st.define(v, Fact{Tags: f.Tags, Nil: triUnk})
		}
		fr.pc++
	case *ssa.BinOp:
		x.stepBinOp(st, v)
		fr.pc++
	case *ssa.UnOp:
		if !x.stepUnOp(st, v) {
			return false
		}
		fr.pc++
	case *ssa.Phi:
		// handled in enterBlock (only reachable here for the root entry block, which has none)
		fr.pc++
	case *ssa.Store:
		x.stepStore(st, v)
		fr.pc++
	case *ssa.MapUpdate:
		x.mapEvent(st, v, v.Map, "update")
		fr.pc++
	case *ssa.Send:
		x.emit(st, &Event{Kind: EvEffect, Eff: EChan, Instr: v})
		fr.pc++
	case *ssa.Select:
		x.emit(st, &Event{Kind: EvEffect, Eff: EChan, Instr: v})
		st.define(v, Fact{})
		fr.pc++
	case *ssa.Go:
		var callee *ssa.Function
		if mc, ok := v.Call.Value.(*ssa.MakeClosure); ok {
			callee = mc.Fn.(*ssa.Function)
		} else {
			callee = v.Call.StaticCallee()
		}
		x.emit(st, &Event{Kind: EvEffect, Eff: EGo, Instr: v, Callee: callee})
		fr.pc++
	case *ssa.Defer:
		fr.defers = append(fr.defers, v)
		fr.pc++
	case *ssa.RunDefers:
		if !fr.inRunq {
			fr.runq = nil
			for i := len(fr.defers) - 1; i >= 0; i-- {
				fr.runq = append(fr.runq, fr.defers[i])
			}
			fr.defers = nil
			fr.inRunq = true
		}
		if len(fr.runq) == 0 {
			fr.inRunq = false
			fr.pc++
			return true
		}
		d := fr.runq[0]
		fr.runq = fr.runq[1:]
		return x.call(st, d, &d.Call, true)
	case *ssa.Call:
		return x.call(st, v, &v.Call, false)
	case *ssa.Panic:
		x.emit(st, &Event{Kind: EvEffect, Eff: EPanic, Instr: v})
		x.Paths++
		x.L.End(x, st, "panic")
		return false
	case *ssa.Jump:
		return x.enterBlock(st, fr.blk.Succs[0])
	case *ssa.If:
		return x.stepIf(st, v)
	case *ssa.Return:
		return x.stepReturn(st, v)
	default:
		x.undecided("unhandled instruction %T in %s", in, FuncName(fr.fn))
		if val, ok := in.(ssa.Value); ok {
			st.define(val, Fact{})
		}
		fr.pc++
	}
	return true
}

func (x *Explorer) fieldTags(base types.Type, idx int) Tag {
	a := x.P.A
	n := named(base)
	s := structOf(n)
	if s == nil || idx >= s.NumFields() {
		return 0
	}
	f := s.Field(idx)
	switch {
	case n == a.Schema && f == a.SchObjectIndex:
		return TLive
	case n == a.DB && f == a.DBCache:
		return TCache
	case n == a.DB && f == a.DBAsyncw:
		return TPend
	case n == a.DB && f == a.DBSchemas:
		return TTbl
	case n == a.Schema && f == a.SchExtension:
		return TObjName
	case n == a.Schema && f == a.SchFields:
		return TSchemaFields
	case n == a.Schema && f == a.SchObject:
		return TWitness
	case n == a.Search && f == a.SearchFields:
		return TSearchFields
	}
	return 0
}

func (x *Explorer) stepIf(st *State, v *ssa.If) bool {
	fr := st.top()
	f := st.factOf(v.Cond)
	tb, fb := fr.blk.Succs[0], fr.blk.Succs[1]
	switch f.Bool {
	case triYes:
		if !x.refine(st, v.Cond, true) {
			return false
		}
		return x.enterBlock(st, tb)
	case triNo:
		if !x.refine(st, v.Cond, false) {
			return false
		}
		return x.enterBlock(st, fb)
	}
	other := st.clone()
	if x.refine(other, v.Cond, false) {
		if x.enterBlock(other, fb) {
			x.push(other)
		}
	}
	if !x.refine(st, v.Cond, true) {
		return false
	}
	return x.enterBlock(st, tb)
}

func (x *Explorer) stepBinOp(st *State, v *ssa.BinOp) {
	f := Fact{}
	if p, pos, ok := x.lenPosPattern(st, v); ok {
		if cur := st.lenpos[vkey{st.depth(), p}]; cur != triUnk {
			if (cur == triYes) == pos {
				f.Bool = triYes
			} else {
				f.Bool = triNo
			}
			st.define(v, f)
			return
		}
	}
	switch v.Op {
	case token.EQL, token.NEQ:
		fx, fy := st.factOf(v.X), st.factOf(v.Y)
		if isPointerLike(v.X.Type()) {
			var eq tri
			switch {
			case fx.Nil == triYes && fy.Nil == triYes:
				eq = triYes
			case fx.Nil == triYes && fy.Nil == triNo, fx.Nil == triNo && fy.Nil == triYes:
				eq = triNo
			}
			if eq != triUnk {
				if (v.Op == token.EQL) == (eq == triYes) {
					f.Bool = triYes
				} else {
					f.Bool = triNo
				}
			}
		} else if fx.Bool != triUnk && fy.Bool != triUnk {
			if (fx.Bool == fy.Bool) == (v.Op == token.EQL) {
				f.Bool = triYes
			} else {
				f.Bool = triNo
			}
		}
	case token.ADD:
		f.Tags = (x.tagsOf(st, v.X) | x.tagsOf(st, v.Y)) & (TSchemaPath | TObjName)
		if c, ok := v.Y.(*ssa.Const); ok && c.Value != nil && c.Value.String() == "1" && st.factOf(v.X).Neg1 {
			f.Zero = true
		}
	}
	st.define(v, f)
}

func (x *Explorer) stepUnOp(st *State, v *ssa.UnOp) bool {
	a := x.P.A
	switch v.Op {
	case token.NOT:
		f := st.factOf(v.X)
		nf := Fact{}
		switch f.Bool {
		case triYes:
			nf.Bool = triNo
		case triNo:
			nf.Bool = triYes
		}
		st.define(v, nf)
	case token.ARROW:
		x.emit(st, &Event{Kind: EvEffect, Eff: EChan, Instr: v})
		st.define(v, Fact{})
		if v.CommaOk {
			d := st.depth()
			st.facts[Sym{d: d, i: 1, v: v}] = Fact{}
			st.facts[Sym{d: d, i: 2, v: v}] = Fact{}
		}
	case token.MUL:
		// load
		if ck, ok := x.cellOf(st, v.X); ok {
			if cs, ok := st.cells[ck]; ok {
				if x.Trace != "" {
					fmt.Printf("      LOADCELL key=%d/%s -> sym d=%d i=%d %v fact=%v\n", ck.d, ck.v.Name(), cs.d, cs.i, cs.v, st.facts[cs])
				}
				st.alias(v, cs)
				return true
			}
		}
		if g, ok := v.X.(*ssa.Global); ok {
			f := Fact{}
			if gv, ok := g.Object().(*types.Var); ok {
				if name, ok := a.Sentinels[gv]; ok {
					f.Nil = triNo
					if sentinelIsSource(v) {
						e, ok := sentinelEff[name]
						if !ok {
							e = EErrOther
						}
						x.emit(st, &Event{Kind: EvEffect, Eff: e, Instr: v})
					}
				}
			}
			st.define(v, f)
			return true
		}
		bt := x.tagsOf(st, v.X)
		f := Fact{}
		switch ad := v.X.(type) {
		case *ssa.FieldAddr:
			f.Tags = x.loadTags(bt, ad.X.Type(), v.Type()) | x.fieldTags(ad.X.Type(), ad.Field)
			x.accessField(st, v, ad.X, ad.Field, false)
			// repeated loads of the same field of the same object see the same abstract value
			if sv := structOf(named(ad.X.Type())); sv != nil && isPointerLike(v.Type()) && sv.Field(ad.Field) == x.P.A.SchAsync {
				if _, isConst := ad.X.(*ssa.Const); !isConst {
					mk := memoKey{st.symOf(ad.X), sv.Field(ad.Field)}
					if ms, ok := st.memo[mk]; ok {
						if _, ok := st.facts[ms]; ok {
							st.alias(v, ms)
							return true
						}
					}
					ns := st.define(v, f)
					if st.memo == nil {
						st.memo = map[memoKey]Sym{}
					}
					if _, ok := st.env[vkey{st.depth(), ad.X}]; !ok {
						st.env[vkey{st.depth(), ad.X}] = mk.base
						if _, ok := st.facts[mk.base]; !ok {
							st.facts[mk.base] = Fact{}
						}
					}
					st.memo[mk] = ns
					return true
				}
			}
		case *ssa.IndexAddr:
			f.Tags = x.loadTags(bt, ad.X.Type(), v.Type())
			x.accessOfLoadedContainer(st, v, ad.X, false)
		default:
			f.Tags = x.loadTags(bt, v.X.Type(), v.Type())
		}
		st.define(v, f)
	default:
		st.define(v, Fact{})
	}
	return true
}

// accessField emits an access event for a field of a guarded struct type.
func (x *Explorer) accessField(st *State, at ssa.Instruction, base ssa.Value, idx int, write bool) {
	n := named(base.Type())
	s := structOf(n)
	if s == nil || n.Obj().Pkg() != x.P.Types || idx >= s.NumFields() {
		return
	}
	ev := &Event{Kind: EvAccess, Instr: at, Struct: n, Field: s.Field(idx), Write: write, Tags: x.tagsOf(st, base), BaseNil: st.factOf(base).Nil}
	if sto, ok := at.(*ssa.Store); ok && write {
		ev.VTags = x.tagsOf(st, sto.Val)
		ev.VNil = st.factOf(sto.Val).Nil
	}
	x.L.Event(x, st, ev)
}

// accessOfLoadedContainer: element access on a slice/map that was loaded from a guarded field.
func (x *Explorer) accessOfLoadedContainer(st *State, at ssa.Instruction, cont ssa.Value, write bool) {
	if n, f, _ := loadedField(cont); n != nil && n.Obj().Pkg() == x.P.Types {
		x.L.Event(x, st, &Event{Kind: EvAccess, Instr: at, Struct: n, Field: f, Write: write, Tags: x.tagsOf(st, cont)})
		return
	}
	// container of unknown origin but with a guarded element type and live/cache provenance
	t := x.tagsOf(st, cont)
	if t&(TLive|TCache|TPend|TTbl) != 0 {
		x.L.Event(x, st, &Event{Kind: EvAccess, Instr: at, Write: write, Tags: t})
	}
}

func (x *Explorer) subject3(t Tag, live, temp, unk Eff) Eff {
	switch {
	case t&TLive != 0:
		return live
	case t&(TFresh|TDecoded) != 0:
		return temp
	}
	return unk
}

func (x *Explorer) store3(t Tag, cache, pend, unk Eff) Eff {
	switch {
	case t&TCache != 0 && t&TPend == 0:
		return cache
	case t&TPend != 0 && t&TCache == 0:
		return pend
	}
	return unk
}

func (x *Explorer) stepStore(st *State, v *ssa.Store) {
	a := x.P.A
	if k, ok := x.cellOf(st, v.Addr); ok {
		al := k.v
		if aa, isAlloc := k.v.(*ssa.Alloc); isAlloc && len(st.frames) == 1 && aa.Comment != "" {
			x.L.Event(x, st, &Event{Kind: EvStoreResult, Instr: v, VFact: st.factOf(v.Val)})
		}
		switch v.Val.(type) {
		case *ssa.Const, *ssa.Global, *ssa.Function:
			cs := Sym{d: k.d, i: 1, v: al}
			f := st.factOf(v.Val)
			f.Tags |= x.tagsOf(st, v.Val)
			st.facts[cs] = f
			st.cells[k] = cs
		default:
			if k.d != st.depth() {
				// cell of an enclosing frame (closure writing a captured variable): copy the fact
				cs := Sym{d: k.d, i: 1, v: al}
				st.facts[cs] = st.factOf(v.Val)
				st.cells[k] = cs
				break
			}
			s := st.symOf(v.Val)
			if _, ok := st.facts[s]; !ok {
				st.facts[s] = Fact{}
			}
			st.cells[k] = s
		}
		return
	}
	vt := x.tagsOf(st, v.Val)
	// merge data tags into the written object (tracks strings through varargs arrays)
	if dt := vt & (TSchemaPath | TObjName | TParamObj); dt != 0 {
		switch v.Addr.(type) {
		case *ssa.Global:
		default:
			s := st.symOf(v.Addr)
			f := st.facts[s]
			f.Tags |= dt
			st.env[vkey{st.depth(), v.Addr}] = s
			st.facts[s] = f
		}
	}
	switch ad := v.Addr.(type) {
	case *ssa.FieldAddr:
		n := named(ad.X.Type())
		bt := x.tagsOf(st, ad.X)
		x.accessField(st, v, ad.X, ad.Field, true)
		if sv := structOf(n); sv != nil && len(st.memo) > 0 {
			fv := sv.Field(ad.Field)
			for k := range st.memo {
				if k.fld == fv {
					delete(st.memo, k)
				}
			}
		}
		// the settings pointer just stored is what the next load of that field of that object yields
		if sv := structOf(n); sv != nil && sv.Field(ad.Field) == a.SchAsync {
			switch v.Val.(type) {
			case *ssa.Const, *ssa.Global:
			default:
				if _, isConst := ad.X.(*ssa.Const); !isConst {
					base := st.symOf(ad.X)
					if _, ok := st.env[vkey{st.depth(), ad.X}]; !ok {
						st.env[vkey{st.depth(), ad.X}] = base
						if _, ok := st.facts[base]; !ok {
							st.facts[base] = Fact{}
						}
					}
					vs := st.symOf(v.Val)
					if _, ok := st.facts[vs]; !ok {
						st.facts[vs] = Fact{}
					}
					st.env[vkey{st.depth(), v.Val}] = vs
					if st.memo == nil {
						st.memo = map[memoKey]Sym{}
					}
					st.memo[memoKey{base, sv.Field(ad.Field)}] = vs
				}
			}
		}
		if s := structOf(n); s != nil {
			f := s.Field(ad.Field)
			switch {
			case n == a.ObjIndex || n == a.FieldIndex:
				x.emit(st, &Event{Kind: EvEffect, Eff: x.subject3(bt, EIdxWLive, EIdxWTemp, EIdxWUnk), Instr: v, Tags: bt, VTags: vt, Struct: n, Field: f})
				if isPointerLike(v.Val.Type()) && n != a.IndexedField {
					x.L.Event(x, st, &Event{Kind: EvIdxContainerStore, Instr: v, Tags: bt, VTags: vt, Struct: n, Field: f})
				}
			case (n == a.Async && f.Exported()) || (n == a.Schema && (f == a.SchCache || f == a.SchAsync)):
				// settings of a schema (or a settings object) that is still private to this call (the caller's value, a
				// freshly allocated or decoded one) are not observable state yet: only a write to a possibly
				// published one is a settings mutation
				if bt&(TFresh|TDecoded) != 0 && bt&TFromTbl == 0 {
					break
				}
				x.emit(st, &Event{Kind: EvEffect, Eff: ECfgW, Instr: v, Tags: bt, VTags: vt, VNil: st.factOf(v.Val).Nil, Struct: n, Field: f})
			}
		}
	case *ssa.IndexAddr:
		bt := x.tagsOf(st, ad.X)
		x.accessOfLoadedContainer(st, v, ad.X, true)
		if _, isSlice := ad.X.Type().Underlying().(*types.Slice); isSlice {
			x.L.Event(x, st, &Event{Kind: EvAliasWrite, Instr: v, Tags: bt})
		}
		if n, f, _ := loadedField(ad.X); n == a.FieldIndex && f == a.FIIndex {
			x.emit(st, &Event{Kind: EvEffect, Eff: x.subject3(bt, EIdxWLive, EIdxWTemp, EIdxWUnk), Instr: v, Tags: bt, VTags: vt, Struct: n, Field: f})
		} else if sl, ok := ad.X.Type().Underlying().(*types.Slice); ok && named(sl.Elem()) == a.IndexedField && bt&TLive != 0 {
			// write through an alias of the live index slice
			x.emit(st, &Event{Kind: EvEffect, Eff: EIdxWLive, Instr: v, Tags: bt, VTags: vt})
		}
	}
}

// mapEvent handles update / range on a map operand.
func (x *Explorer) mapEvent(st *State, at ssa.Instruction, m ssa.Value, op string) {
	a := x.P.A
	mt := x.tagsOf(st, m)
	n, f, _ := loadedField(m)
	write := op == "update" || op == "delete"
	if n != nil && n.Obj().Pkg() == x.P.Types {
		x.L.Event(x, st, &Event{Kind: EvAccess, Instr: at, Struct: n, Field: f, Write: write, Tags: mt})
	} else if mt&(TLive|TCache|TPend|TTbl) != 0 {
		x.L.Event(x, st, &Event{Kind: EvAccess, Instr: at, Write: write, Tags: mt})
	}
	mtyp, _ := m.Type().Underlying().(*types.Map)
	isIdx := n == a.ObjIndex || n == a.FieldIndex
	isTbl := (n == a.DB && f == a.DBSchemas) || (n == nil && mtyp != nil && named(mtyp.Elem()) == a.Schema)
	isSto := (n == a.ObjectMap && f == a.InnerMap) || (n == nil && mtyp != nil && named(mtyp.Elem()) == a.Object && types.IsInterface(mtyp.Elem()))
	if !isIdx && n == nil && mt&TLive != 0 && mtyp != nil {
		isIdx = true
	}
	var vt Tag
	if mu, ok := at.(*ssa.MapUpdate); ok {
		vt = x.tagsOf(st, mu.Value)
		// a container installed in the cache / pending store belongs to that store from here on
		// (`om = newObjectMap(); s.m[k] = om; om.put(o)` is a put into the store s)
		if st2 := mt & (TCache | TPend); st2 != 0 && isPointerLike(mu.Value.Type()) && named(mu.Value.Type()) != nil && named(mu.Value.Type()).Obj().Pkg() == x.P.Types {
			switch mu.Value.(type) {
			case *ssa.Const, *ssa.Global:
			default:
				vs := st.symOf(mu.Value)
				vf := st.facts[vs]
				vf.Tags |= st2
				st.env[vkey{st.depth(), mu.Value}] = vs
				st.facts[vs] = vf
			}
		}
	}
	switch {
	case isIdx:
		if write {
			x.emit(st, &Event{Kind: EvEffect, Eff: x.subject3(mt, EIdxWLive, EIdxWTemp, EIdxWUnk), Instr: at, Tags: mt, VTags: vt, Struct: n, Field: f})
			if mu, ok := at.(*ssa.MapUpdate); ok && isPointerLike(mu.Value.Type()) && named(mu.Value.Type()) != a.IndexedField {
				x.L.Event(x, st, &Event{Kind: EvIdxContainerStore, Instr: at, Tags: mt, VTags: vt, Struct: n, Field: f})
			}
		}
	case isTbl:
		switch op {
		case "update":
			x.emit(st, &Event{Kind: EvEffect, Eff: ETblW, Instr: at, VTags: vt})
			st.add(ETblHas)
			if mu, ok := at.(*ssa.MapUpdate); ok {
				switch mu.Value.(type) {
				case *ssa.Const, *ssa.Global:
				default:
					vs := st.symOf(mu.Value)
					vf := st.facts[vs]
					vf.Tags |= TFromTbl
					st.env[vkey{st.depth(), mu.Value}] = vs
					st.facts[vs] = vf
				}
			}
		case "delete":
			x.emit(st, &Event{Kind: EvEffect, Eff: ETblDel, Instr: at})
			st.must = st.must.Minus(effs(ETblHas))
		default:
			x.emit(st, &Event{Kind: EvEffect, Eff: ETblR, Instr: at})
		}
	case n == a.ObjectStore && f == a.StoreMap && op == "delete":
		// a whole per-type map dropped from a store (purge)
		x.emit(st, &Event{Kind: EvEffect, Eff: x.store3(mt, EDelCache, EDelPend, EDelUnk), Instr: at, Tags: mt})
	case isSto:
		switch op {
		case "update":
			x.emit(st, &Event{Kind: EvEffect, Eff: x.store3(mt, EPutCache, EPutPend, EPutUnk), Instr: at, Tags: mt, VTags: vt})
		case "delete":
			x.emit(st, &Event{Kind: EvEffect, Eff: x.store3(mt, EDelCache, EDelPend, EDelUnk), Instr: at, Tags: mt})
		case "lookup":
			x.emit(st, &Event{Kind: EvEffect, Eff: x.store3(mt, EGetCache, EGetPend, EGetUnk), Instr: at, Tags: mt})
		default:
			x.emit(st, &Event{Kind: EvEffect, Eff: EIterStore, Instr: at, Tags: mt})
		}
	}
}

func (x *Explorer) stepLookup(st *State, v *ssa.Lookup) {
	a := x.P.A
	if _, isMap := v.X.Type().Underlying().(*types.Map); !isMap {
		st.define(v, Fact{}) // string index
		return
	}
	mt := x.tagsOf(st, v.X)
	x.mapEvent(st, v, v.X, "lookup")
	n, f, _ := loadedField(v.X)
	isTbl := n == a.DB && f == a.DBSchemas
	et := v.X.Type().Underlying().(*types.Map).Elem()
	vf := Fact{Tags: x.loadTags(mt, v.X.Type(), et)}
	if isTbl {
		vf.Tags |= TFromTbl
	}
	if v.CommaOk {
		st.define(v, Fact{})
		d := st.depth()
		okf := Fact{}
		if isTbl {
			if x.AssumeTblStable && st.must.Has(ETblHas) {
				okf.Bool = triYes
			} else {
				okf.OkTrue = effs(ETblHas)
			}
		}
		if x.AssumeStorePresent && n == a.ObjectStore && f == a.StoreMap {
			okf.Bool = triYes
		}
		st.facts[Sym{d: d, i: 1, v: v}] = vf
		st.facts[Sym{d: d, i: 2, v: v}] = okf
	} else {
		st.define(v, vf)
	}
}

// isCellAlloc: a local variable whose content the engine tracks: a non-escaping alloc, or one that
// escapes only into closures created in the same function (e.g. a named result assigned in a deferred func).
func isCellAlloc(v *ssa.Alloc) bool {
	if !v.Heap {
		return true
	}
	et := v.Type().Underlying().(*types.Pointer).Elem()
	if !isPointerLike(et) {
		if b, ok := et.Underlying().(*types.Basic); !ok || b.Info()&(types.IsBoolean|types.IsInteger) == 0 {
			return false
		}
	}
	refs := v.Referrers()
	if refs == nil {
		return false
	}
	for _, r := range *refs {
		switch u := r.(type) {
		case *ssa.Store:
			if u.Addr != v {
				return false
			}
		case *ssa.UnOp, *ssa.DebugRef:
		case *ssa.MakeClosure:
			// inside the closure the free variable must only be loaded / stored
			fn := u.Fn.(*ssa.Function)
			for i, b := range u.Bindings {
				if b != v {
					continue
				}
				fv := fn.FreeVars[i]
				if fr := fv.Referrers(); fr != nil {
					for _, r2 := range *fr {
						switch u2 := r2.(type) {
						case *ssa.Store:
							if u2.Addr != fv {
								return false
							}
						case *ssa.UnOp, *ssa.DebugRef:
						default:
							return false
						}
					}
				}
			}
		default:
			return false
		}
	}
	return true
}

// cellOf resolves an address operand to a tracked cell (own frame alloc, or a free variable bound to a parent's cell).
func (x *Explorer) cellOf(st *State, addr ssa.Value) (vkey, bool) {
	switch a := addr.(type) {
	case *ssa.Alloc:
		k := vkey{st.depth(), a}
		if _, ok := st.cells[k]; ok {
			return k, true
		}
	case *ssa.FreeVar:
		if s, ok := st.env[vkey{st.depth(), a}]; ok {
			if al, ok := s.v.(*ssa.Alloc); ok && s.i == 0 {
				k := vkey{s.d, al}
				if _, ok := st.cells[k]; ok {
					return k, true
				}
			}
		}
		// a goroutine closure explored as a root: captured variables seeded from the spawn site
		if k := (vkey{st.depth(), a}); st.depth() == 0 {
			if _, ok := st.cells[k]; ok {
				return k, true
			}
		}
	}
	return vkey{}, false
}

func isZeroConst(v ssa.Value) bool {
	c, ok := v.(*ssa.Const)
	return ok && c.Value != nil && c.Value.String() == "0"
}
