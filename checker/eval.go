package main

// Finite abstract evaluation (engine E5): a small evaluator for side-effect-free SSA functions
// whose inputs range over a finite abstract domain (booleans, nil/non-nil pointers, small
// integers, string constants, dynamic type tags, and ordered atoms whose comparisons are
// answered by an ordering parameter). It is used to compute complete truth tables of
// decision functions. Anything it does not understand yields outcome "undecided".

import (
	"fmt"
	"go/constant"
	"go/token"
	"go/types"
	"path/filepath"
	"strings"

	"golang.org/x/tools/go/ssa"
)

type avKind int

const (
	avUnknown avKind = iota
	avBool
	avInt
	avStr
	avNil
	avPtr    // pointer to an abstract object
	avStruct // struct value (by value)
	avIface  // interface holding a dynamic value
	avSlice
	avAtom // abstract ordered value
	avErr  // error sentinel
	avRef  // address of a field / element / local
	avOpaque
)

type AV struct {
	K     avKind
	B     bool
	I     int64
	S     string
	Obj   *AObj
	Dyn   string // dynamic type name for avIface
	Inner *AV
	Elems []AV
	// avRef
	RefObj   *AObj
	RefField int
	RefCell  *AV
}

type AObj struct {
	F map[int]AV
	T types.Type
}

func avB(b bool) AV       { return AV{K: avBool, B: b} }
func avI(i int64) AV      { return AV{K: avInt, I: i} }
func avS(s string) AV     { return AV{K: avStr, S: s} }
func avAtomV(n string) AV { return AV{K: avAtom, S: n} }
func avIfaceOf(dyn string, inner AV) AV {
	return AV{K: avIface, Dyn: dyn, Inner: &inner}
}
func newAObj(t types.Type, fields map[string]AV) *AObj {
	o := &AObj{F: map[int]AV{}, T: t}
	if s, ok := t.Underlying().(*types.Struct); ok {
		for i := 0; i < s.NumFields(); i++ {
			if v, ok := fields[s.Field(i).Name()]; ok {
				o.F[i] = v
			}
		}
	}
	return o
}

func (v AV) String() string {
	switch v.K {
	case avBool:
		return fmt.Sprint(v.B)
	case avInt:
		return fmt.Sprint(v.I)
	case avStr:
		return fmt.Sprintf("%q", v.S)
	case avNil:
		return "nil"
	case avErr:
		return "err:" + v.S
	case avAtom:
		return "atom:" + v.S
	case avIface:
		if v.Inner != nil {
			return v.Dyn + "(" + v.Inner.String() + ")"
		}
		return v.Dyn
	case avSlice:
		return fmt.Sprintf("slice[%d]", len(v.Elems))
	case avPtr:
		return "ptr"
	case avOpaque:
		return "opaque:" + v.S
	}
	return "?"
}

type EvalEnv struct {
	P *Prog
	// Cmp answers an ordering comparison between two atoms.
	Cmp func(op token.Token, a, b AV) (bool, bool)
	// CallHook may model a call (sod or external); return handled=false to evaluate / fail.
	CallHook func(callee *ssa.Function, args []AV) ([]AV, bool)
	// InvokeHook models interface method calls.
	InvokeHook func(recv AV, method string, args []AV) ([]AV, bool)
	Steps      int
	Why        string // reason for an undecided outcome
}

type evalFrame struct {
	fn   *ssa.Function
	vals map[ssa.Value]AV
}

func (e *EvalEnv) undecided(format string, a ...interface{}) {
	if e.Why == "" {
		e.Why = fmt.Sprintf(format, a...)
	}
}

// Eval evaluates fn on args. outcome: "return", "panic", "undecided".
func (e *EvalEnv) Eval(fn *ssa.Function, args []AV, depth int) ([]AV, string) {
	if fn == nil || fn.Blocks == nil {
		e.undecided("no body")
		return nil, "undecided"
	}
	if depth > 12 {
		e.undecided("call depth")
		return nil, "undecided"
	}
	fr := &evalFrame{fn: fn, vals: map[ssa.Value]AV{}}
	for i, p := range fn.Params {
		if i < len(args) {
			fr.vals[p] = args[i]
		}
	}
	blk := fn.Blocks[0]
	var prev *ssa.BasicBlock
	for {
		var next *ssa.BasicBlock
		// phis first (simultaneous)
		phiVals := map[ssa.Value]AV{}
		for _, in := range blk.Instrs {
			phi, ok := in.(*ssa.Phi)
			if !ok {
				break
			}
			for i, pb := range blk.Preds {
				if pb == prev {
					phiVals[phi] = e.val(fr, phi.Edges[i])
				}
			}
		}
		for k, v := range phiVals {
			fr.vals[k] = v
		}
		for _, in := range blk.Instrs {
			if e.Steps++; e.Steps > 200000 {
				e.undecided("step budget")
				return nil, "undecided"
			}
			switch v := in.(type) {
			case *ssa.Phi, *ssa.DebugRef:
			case *ssa.Alloc:
				cell := e.zero(v.Type().Underlying().(*types.Pointer).Elem())
				fr.vals[v] = AV{K: avRef, RefCell: &cell}
			case *ssa.FieldAddr:
				base := e.val(fr, v.X)
				switch base.K {
				case avPtr:
					fr.vals[v] = AV{K: avRef, RefObj: base.Obj, RefField: v.Field}
				case avRef:
					// address of a struct held in a cell / field
					tgt := e.load(base)
					if tgt.K == avUnknown {
						// a nested struct field that was never written: materialise its zero value in place
						if pt, ok := v.X.Type().Underlying().(*types.Pointer); ok {
							if _, isStruct := pt.Elem().Underlying().(*types.Struct); isStruct {
								tgt = AV{K: avStruct, Obj: &AObj{F: map[int]AV{}, T: pt.Elem()}}
								if base.RefCell != nil {
									*base.RefCell = tgt
								} else if base.RefObj != nil {
									base.RefObj.F[base.RefField] = tgt
								}
							}
						}
					}
					if tgt.K == avStruct && tgt.Obj != nil {
						fr.vals[v] = AV{K: avRef, RefObj: tgt.Obj, RefField: v.Field}
					} else {
						e.undecided("FieldAddr on %v in %s", tgt, fn.Name())
						return nil, "undecided"
					}
				case avNil:
					return nil, "panic"
				default:
					e.undecided("FieldAddr base %v in %s", base, fn.Name())
					return nil, "undecided"
				}
			case *ssa.Field:
				base := e.val(fr, v.X)
				if base.K == avStruct && base.Obj != nil {
					fv, ok := base.Obj.F[v.Field]
					if !ok {
						fv = e.zero(v.Type())
					}
					fr.vals[v] = fv
				} else {
					e.undecided("Field on %v", base)
					return nil, "undecided"
				}
			case *ssa.IndexAddr:
				base := e.val(fr, v.X)
				idx := e.val(fr, v.Index)
				if base.K == avRef {
					base = e.load(base)
				}
				if base.K == avSlice && idx.K == avInt {
					if idx.I < 0 || int(idx.I) >= len(base.Elems) {
						return nil, "panic"
					}
					fr.vals[v] = AV{K: avRef, RefCell: &base.Elems[idx.I]}
				} else {
					e.undecided("IndexAddr %v[%v] in %s", base, idx, fn.Name())
					return nil, "undecided"
				}
			case *ssa.UnOp:
				x := e.val(fr, v.X)
				switch v.Op {
				case token.MUL:
					if g, ok := v.X.(*ssa.Global); ok {
						if gv, ok := g.Object().(*types.Var); ok {
							if name, ok := e.P.A.Sentinels[gv]; ok {
								fr.vals[v] = AV{K: avErr, S: name}
								continue
							}
						}
						if bt, ok := g.Type().Underlying().(*types.Pointer).Elem().Underlying().(*types.Basic); ok && bt.Info()&types.IsString != 0 {
							// a package-level string variable: a symbolic marker that concatenates like a string
							fr.vals[v] = avS("<" + g.Name() + ">")
							continue
						}
						fr.vals[v] = AV{K: avOpaque, S: g.Name()}
						continue
					}
					if x.K == avNil {
						return nil, "panic"
					}
					if x.K == avPtr {
						fr.vals[v] = AV{K: avStruct, Obj: x.Obj}
						continue
					}
					if x.K != avRef {
						e.undecided("load of %v in %s", x, fn.Name())
						return nil, "undecided"
					}
					lv := e.load(x)
					if lv.K == avUnknown {
						lv = e.zero(v.Type())
					}
					fr.vals[v] = lv
				case token.NOT:
					if x.K != avBool {
						e.undecided("! of %v", x)
						return nil, "undecided"
					}
					fr.vals[v] = avB(!x.B)
				case token.SUB:
					if x.K != avInt {
						e.undecided("- of %v", x)
						return nil, "undecided"
					}
					fr.vals[v] = avI(-x.I)
				default:
					e.undecided("unop %s", v.Op)
					return nil, "undecided"
				}
			case *ssa.Store:
				addr := e.val(fr, v.Addr)
				val := e.val(fr, v.Val)
				if addr.K != avRef {
					e.undecided("store to %v", addr)
					return nil, "undecided"
				}
				if addr.RefCell != nil {
					*addr.RefCell = val
				} else {
					addr.RefObj.F[addr.RefField] = val
				}
			case *ssa.BinOp:
				res, ok := e.binop(v.Op, e.val(fr, v.X), e.val(fr, v.Y))
				if !ok {
					e.undecided("binop %s %v %v in %s", v.Op, e.val(fr, v.X), e.val(fr, v.Y), fn.Name())
					return nil, "undecided"
				}
				fr.vals[v] = res
			case *ssa.MakeInterface:
				x := e.val(fr, v.X)
				if x.K == avIface {
					fr.vals[v] = x
				} else {
					fr.vals[v] = avIfaceOf(types.TypeString(v.X.Type(), nil), x)
				}
			case *ssa.ChangeInterface:
				fr.vals[v] = e.val(fr, v.X)
			case *ssa.ChangeType:
				fr.vals[v] = e.val(fr, v.X)
			case *ssa.Convert:
				fr.vals[v] = e.val(fr, v.X)
			case *ssa.TypeAssert:
				x := e.val(fr, v.X)
				want := types.TypeString(v.AssertedType, nil)
				match := x.K == avIface && x.Dyn == want
				var inner AV
				if match && x.Inner != nil {
					inner = *x.Inner
				} else {
					inner = e.zero(v.AssertedType)
				}
				if x.K != avIface && x.K != avNil {
					e.undecided("type assertion on %v in %s", x, fn.Name())
					return nil, "undecided"
				}
				if v.CommaOk {
					fr.vals[v] = AV{K: avSlice, Elems: []AV{inner, avB(match)}}
				} else {
					if !match {
						return nil, "panic"
					}
					fr.vals[v] = inner
				}
			case *ssa.Lookup:
				// a lookup in a package-level table of string constants (built by the package initialiser)
				x := e.val(fr, v.X)
				k := e.val(fr, v.Index)
				if x.K == avRef {
					x = e.load(x)
				}
				tbl, okT := globalStringMap(e.P, x)
				if !okT || k.K != avStr {
					e.undecided("instruction *ssa.Lookup in %s", fn.Name())
					return nil, "undecided"
				}
				val, hit := tbl[k.S]
				if v.CommaOk {
					fr.vals[v] = AV{K: avSlice, Elems: []AV{avS(val), avB(hit)}}
				} else {
					fr.vals[v] = avS(val)
				}
			case *ssa.Extract:
				t := e.val(fr, v.Tuple)
				if t.K != avSlice || v.Index >= len(t.Elems) {
					e.undecided("extract from %v", t)
					return nil, "undecided"
				}
				fr.vals[v] = t.Elems[v.Index]
			case *ssa.Slice:
				x := e.val(fr, v.X)
				if x.K == avRef {
					x = e.load(x)
				}
				if x.K == avStr {
					lo, hi := int64(0), int64(len(x.S))
					if v.Low != nil {
						if l := e.val(fr, v.Low); l.K == avInt {
							lo = l.I
						} else {
							e.undecided("slice bound")
							return nil, "undecided"
						}
					}
					if v.High != nil {
						if h := e.val(fr, v.High); h.K == avInt {
							hi = h.I
						} else {
							e.undecided("slice bound")
							return nil, "undecided"
						}
					}
					if lo < 0 || hi > int64(len(x.S)) || lo > hi {
						return nil, "panic"
					}
					fr.vals[v] = avS(x.S[lo:hi])
					continue
				}
				if x.K != avSlice {
					e.undecided("slice of %v", x)
					return nil, "undecided"
				}
				lo, hi := int64(0), int64(len(x.Elems))
				if v.Low != nil {
					l := e.val(fr, v.Low)
					if l.K != avInt {
						e.undecided("slice bound")
						return nil, "undecided"
					}
					lo = l.I
				}
				if v.High != nil {
					h := e.val(fr, v.High)
					if h.K != avInt {
						e.undecided("slice bound")
						return nil, "undecided"
					}
					hi = h.I
				}
				if lo < 0 || hi > int64(len(x.Elems)) || lo > hi {
					return nil, "panic"
				}
				fr.vals[v] = AV{K: avSlice, Elems: x.Elems[lo:hi]}
			case *ssa.Call:
				res, out := e.call(fr, v, depth)
				if out != "return" {
					return nil, out
				}
				if len(res) == 1 {
					fr.vals[v] = res[0]
				} else {
					fr.vals[v] = AV{K: avSlice, Elems: res}
				}
			case *ssa.If:
				c := e.val(fr, v.Cond)
				if c.K != avBool {
					e.undecided("branch on %v in %s", c, fn.Name())
					return nil, "undecided"
				}
				if c.B {
					next = blk.Succs[0]
				} else {
					next = blk.Succs[1]
				}
			case *ssa.Jump:
				next = blk.Succs[0]
			case *ssa.Return:
				var out []AV
				for _, r := range v.Results {
					out = append(out, e.val(fr, r))
				}
				return out, "return"
			case *ssa.Panic:
				return nil, "panic"
			default:
				e.undecided("instruction %T in %s", in, fn.Name())
				return nil, "undecided"
			}
		}
		if next == nil {
			e.undecided("no successor")
			return nil, "undecided"
		}
		prev, blk = blk, next
	}
}

func (e *EvalEnv) load(ref AV) AV {
	if ref.RefCell != nil {
		return *ref.RefCell
	}
	if ref.RefObj != nil {
		return ref.RefObj.F[ref.RefField]
	}
	return AV{}
}

func (e *EvalEnv) zero(t types.Type) AV {
	switch u := t.Underlying().(type) {
	case *types.Basic:
		switch {
		case u.Info()&types.IsBoolean != 0:
			return avB(false)
		case u.Info()&types.IsInteger != 0:
			return avI(0)
		case u.Info()&types.IsString != 0:
			return avS("")
		}
	case *types.Pointer, *types.Interface, *types.Map, *types.Chan, *types.Signature:
		return AV{K: avNil}
	case *types.Slice:
		return AV{K: avSlice}
	case *types.Array:
		el := make([]AV, u.Len())
		for i := range el {
			el[i] = e.zero(u.Elem())
		}
		return AV{K: avSlice, Elems: el}
	case *types.Struct:
		return AV{K: avStruct, Obj: &AObj{F: map[int]AV{}, T: t}}
	}
	return AV{}
}

func (e *EvalEnv) val(fr *evalFrame, v ssa.Value) AV {
	switch c := v.(type) {
	case *ssa.Const:
		if c.Value == nil {
			if _, ok := c.Type().Underlying().(*types.Slice); ok {
				return AV{K: avSlice}
			}
			return AV{K: avNil}
		}
		switch c.Value.Kind() {
		case constant.Bool:
			return avB(constant.BoolVal(c.Value))
		case constant.Int:
			i, _ := constant.Int64Val(c.Value)
			return avI(i)
		case constant.String:
			return avS(constant.StringVal(c.Value))
		}
		return AV{K: avOpaque, S: c.Value.String()}
	case *ssa.Function:
		return AV{K: avOpaque, S: c.Name()}
	}
	return fr.vals[v]
}

func (e *EvalEnv) binop(op token.Token, a, b AV) (AV, bool) {
	// nil / sentinel / pointer equality
	isRefLike := func(v AV) bool { return v.K == avNil || v.K == avErr || v.K == avPtr || v.K == avIface }
	if (op == token.EQL || op == token.NEQ) && isRefLike(a) && isRefLike(b) {
		eq := false
		switch {
		case a.K == avNil && b.K == avNil:
			eq = true
		case a.K == avErr && b.K == avErr:
			eq = a.S == b.S
		case a.K == avPtr && b.K == avPtr:
			eq = a.Obj == b.Obj
		case a.K == avIface && b.K == avIface:
			if a.Dyn != b.Dyn || a.Inner == nil || b.Inner == nil {
				eq = false
			} else {
				r, ok := e.binop(token.EQL, *a.Inner, *b.Inner)
				if !ok {
					return AV{}, false
				}
				eq = r.B
			}
		}
		return avB(eq == (op == token.EQL)), true
	}
	if a.K == avAtom || b.K == avAtom {
		if e.Cmp != nil {
			if r, ok := e.Cmp(op, a, b); ok {
				return avB(r), true
			}
		}
		return AV{}, false
	}
	switch {
	case a.K == avBool && b.K == avBool:
		switch op {
		case token.EQL:
			return avB(a.B == b.B), true
		case token.NEQ:
			return avB(a.B != b.B), true
		}
	case a.K == avInt && b.K == avInt:
		switch op {
		case token.EQL:
			return avB(a.I == b.I), true
		case token.NEQ:
			return avB(a.I != b.I), true
		case token.LSS:
			return avB(a.I < b.I), true
		case token.LEQ:
			return avB(a.I <= b.I), true
		case token.GTR:
			return avB(a.I > b.I), true
		case token.GEQ:
			return avB(a.I >= b.I), true
		case token.ADD:
			return avI(a.I + b.I), true
		case token.SUB:
			return avI(a.I - b.I), true
		case token.MUL:
			return avI(a.I * b.I), true
		case token.QUO:
			if b.I == 0 {
				return AV{}, false
			}
			return avI(a.I / b.I), true
		}
	case a.K == avStr && b.K == avStr:
		switch op {
		case token.EQL:
			return avB(a.S == b.S), true
		case token.NEQ:
			return avB(a.S != b.S), true
		case token.LSS:
			return avB(a.S < b.S), true
		case token.ADD:
			return avS(a.S + b.S), true
		}
	}
	return AV{}, false
}

func (e *EvalEnv) call(fr *evalFrame, c *ssa.Call, depth int) ([]AV, string) {
	cc := &c.Call
	var args []AV
	for _, a := range cc.Args {
		args = append(args, e.val(fr, a))
	}
	if cc.IsInvoke() {
		if e.InvokeHook != nil {
			if res, ok := e.InvokeHook(e.val(fr, cc.Value), cc.Method.Name(), args); ok {
				return res, "return"
			}
		}
		e.undecided("invoke %s", cc.Method.Name())
		return nil, "undecided"
	}
	if b, ok := cc.Value.(*ssa.Builtin); ok {
		switch b.Name() {
		case "len":
			x := args[0]
			if x.K == avRef {
				x = e.load(x)
			}
			switch x.K {
			case avSlice:
				return []AV{avI(int64(len(x.Elems)))}, "return"
			case avStr:
				return []AV{avI(int64(len(x.S)))}, "return"
			}
		}
		e.undecided("builtin %s", b.Name())
		return nil, "undecided"
	}
	callee := cc.StaticCallee()
	if e.CallHook != nil {
		if res, ok := e.CallHook(callee, args); ok {
			return res, "return"
		}
	}
	if callee == nil {
		e.undecided("dynamic call")
		return nil, "undecided"
	}
	if callee.Blocks != nil && inSod(e.P, callee) {
		return e.Eval(callee, args, depth+1)
	}
	switch classifyExternal(callee) {
	case xErrorf, xErrorsNew:
		// a formatted error wrapping whatever sentinel is among its arguments
		name := "error"
		for _, a := range args {
			if a.K == avSlice {
				for _, el := range a.Elems {
					if el.K == avErr {
						name = el.S
					}
					if el.K == avIface && el.Inner != nil && el.Inner.K == avErr {
						name = el.Inner.S
					}
				}
			}
		}
		return []AV{{K: avErr, S: name}}, "return"
	}
	e.undecided("external call %s", callee.String())
	return nil, "undecided"
}

// stdlibStringHook models pure string helpers of the standard library on concrete operands by calling the real
// functions (this executes standard-library code inside the checker, never sod code).
func stdlibStringHook(callee *ssa.Function, args []AV) ([]AV, bool) {
	if callee == nil || callee.Object() == nil || callee.Object().Pkg() == nil {
		return nil, false
	}
	str := func(i int) (string, bool) {
		if i < len(args) && args[i].K == avStr {
			return args[i].S, true
		}
		return "", false
	}
	num := func(i int) (int, bool) {
		if i < len(args) && args[i].K == avInt {
			return int(args[i].I), true
		}
		return 0, false
	}
	strs := func(ss []string) AV {
		out := AV{K: avSlice}
		for _, x := range ss {
			out.Elems = append(out.Elems, avS(x))
		}
		return out
	}
	pkg, name := callee.Object().Pkg().Path(), callee.Name()
	switch pkg + "." + name {
	case "strings.SplitN":
		a, ok1 := str(0)
		b, ok2 := str(1)
		n, ok3 := num(2)
		if ok1 && ok2 && ok3 {
			return []AV{strs(strings.SplitN(a, b, n))}, true
		}
	case "strings.Split":
		a, ok1 := str(0)
		b, ok2 := str(1)
		if ok1 && ok2 {
			return []AV{strs(strings.Split(a, b))}, true
		}
	case "strings.Cut":
		a, ok1 := str(0)
		b, ok2 := str(1)
		if ok1 && ok2 {
			x, y, f := strings.Cut(a, b)
			return []AV{avS(x), avS(y), avB(f)}, true
		}
	case "strings.TrimSuffix":
		a, ok1 := str(0)
		b, ok2 := str(1)
		if ok1 && ok2 {
			return []AV{avS(strings.TrimSuffix(a, b))}, true
		}
	case "strings.TrimPrefix":
		a, ok1 := str(0)
		b, ok2 := str(1)
		if ok1 && ok2 {
			return []AV{avS(strings.TrimPrefix(a, b))}, true
		}
	case "strings.HasSuffix":
		a, ok1 := str(0)
		b, ok2 := str(1)
		if ok1 && ok2 {
			return []AV{avB(strings.HasSuffix(a, b))}, true
		}
	case "strings.HasPrefix":
		a, ok1 := str(0)
		b, ok2 := str(1)
		if ok1 && ok2 {
			return []AV{avB(strings.HasPrefix(a, b))}, true
		}
	case "strings.Index":
		a, ok1 := str(0)
		b, ok2 := str(1)
		if ok1 && ok2 {
			return []AV{avI(int64(strings.Index(a, b)))}, true
		}
	case "strings.LastIndex":
		a, ok1 := str(0)
		b, ok2 := str(1)
		if ok1 && ok2 {
			return []AV{avI(int64(strings.LastIndex(a, b)))}, true
		}
	case "strings.IndexByte", "strings.LastIndexByte", "strings.IndexRune":
		a, ok1 := str(0)
		b, ok2 := num(1)
		if ok1 && ok2 {
			switch name {
			case "IndexByte":
				return []AV{avI(int64(strings.IndexByte(a, byte(b))))}, true
			case "LastIndexByte":
				return []AV{avI(int64(strings.LastIndexByte(a, byte(b))))}, true
			default:
				return []AV{avI(int64(strings.IndexRune(a, rune(b))))}, true
			}
		}
	case "strings.Contains", "strings.ContainsAny", "strings.EqualFold":
		a, ok1 := str(0)
		b, ok2 := str(1)
		if ok1 && ok2 {
			switch name {
			case "Contains":
				return []AV{avB(strings.Contains(a, b))}, true
			case "ContainsAny":
				return []AV{avB(strings.ContainsAny(a, b))}, true
			default:
				return []AV{avB(strings.EqualFold(a, b))}, true
			}
		}
	case "strings.ContainsRune":
		a, ok1 := str(0)
		b, ok2 := num(1)
		if ok1 && ok2 {
			return []AV{avB(strings.ContainsRune(a, rune(b)))}, true
		}
	case "strings.Count":
		a, ok1 := str(0)
		b, ok2 := str(1)
		if ok1 && ok2 {
			return []AV{avI(int64(strings.Count(a, b)))}, true
		}
	case "strings.Trim", "strings.TrimLeft", "strings.TrimRight":
		a, ok1 := str(0)
		b, ok2 := str(1)
		if ok1 && ok2 {
			switch name {
			case "Trim":
				return []AV{avS(strings.Trim(a, b))}, true
			case "TrimLeft":
				return []AV{avS(strings.TrimLeft(a, b))}, true
			default:
				return []AV{avS(strings.TrimRight(a, b))}, true
			}
		}
	case "strings.ToLower", "strings.ToUpper", "strings.TrimSpace":
		if a, ok := str(0); ok {
			switch name {
			case "ToLower":
				return []AV{avS(strings.ToLower(a))}, true
			case "ToUpper":
				return []AV{avS(strings.ToUpper(a))}, true
			default:
				return []AV{avS(strings.TrimSpace(a))}, true
			}
		}
	case "strings.ReplaceAll":
		a, ok1 := str(0)
		b, ok2 := str(1)
		c, ok3 := str(2)
		if ok1 && ok2 && ok3 {
			return []AV{avS(strings.ReplaceAll(a, b, c))}, true
		}
	case "strings.Replace":
		a, ok1 := str(0)
		b, ok2 := str(1)
		c, ok3 := str(2)
		n, ok4 := num(3)
		if ok1 && ok2 && ok3 && ok4 {
			return []AV{avS(strings.Replace(a, b, c, n))}, true
		}
	case "strings.Join":
		if len(args) == 2 && args[0].K == avSlice {
			if sep, ok := str(1); ok {
				var parts []string
				for _, el := range args[0].Elems {
					if el.K != avStr {
						return nil, false
					}
					parts = append(parts, el.S)
				}
				return []AV{avS(strings.Join(parts, sep))}, true
			}
		}
	case "path/filepath.Ext":
		if a, ok := str(0); ok {
			return []AV{avS(filepath.Ext(a))}, true
		}
	case "path/filepath.Base":
		if a, ok := str(0); ok {
			return []AV{avS(filepath.Base(a))}, true
		}
	case "path/filepath.Dir":
		if a, ok := str(0); ok {
			return []AV{avS(filepath.Dir(a))}, true
		}
	case "path/filepath.Join":
		if len(args) == 1 && args[0].K == avSlice {
			var parts []string
			for _, el := range args[0].Elems {
				if el.K != avStr {
					return nil, false
				}
				parts = append(parts, el.S)
			}
			return []AV{avS(filepath.Join(parts...))}, true
		}
	case "fmt.Sprintf":
		f, ok := str(0)
		if ok && len(args) == 2 && args[1].K == avSlice {
			var vals []interface{}
			for _, el := range args[1].Elems {
				v := el
				if v.K == avIface && v.Inner != nil {
					v = *v.Inner
				}
				switch v.K {
				case avStr:
					vals = append(vals, v.S)
				case avInt:
					vals = append(vals, v.I)
				case avBool:
					vals = append(vals, v.B)
				default:
					return nil, false
				}
			}
			return []AV{avS(fmt.Sprintf(f, vals...))}, true
		}
	}
	return nil, false
}

// globalStringMap: the constant content of a package-level map[string]string variable, as the package initialiser
// builds it (a map literal: make + constant updates, stored into the global once).
func globalStringMap(p *Prog, x AV) (map[string]string, bool) {
	if x.K != avOpaque || x.S == "" {
		return nil, false
	}
	g, ok := p.SPkg.Members[x.S].(*ssa.Global)
	if !ok {
		return nil, false
	}
	mt, ok := g.Type().Underlying().(*types.Pointer).Elem().Underlying().(*types.Map)
	if !ok {
		return nil, false
	}
	if b, ok := mt.Key().Underlying().(*types.Basic); !ok || b.Info()&types.IsString == 0 {
		return nil, false
	}
	if b, ok := mt.Elem().Underlying().(*types.Basic); !ok || b.Info()&types.IsString == 0 {
		return nil, false
	}
	// written anywhere but in the initialiser? then its content is not a constant
	init := p.SPkg.Func("init")
	if init == nil {
		return nil, false
	}
	var mk ssa.Value
	stores := 0
	for _, fn := range p.Funcs {
		for _, b := range fn.Blocks {
			for _, in := range b.Instrs {
				if st, ok := in.(*ssa.Store); ok && st.Addr == ssa.Value(g) {
					stores++
					if fn != init {
						return nil, false
					}
					mk = st.Val
				}
				if mu, ok := in.(*ssa.MapUpdate); ok && fn != init {
					if ld, ok := mu.Map.(*ssa.UnOp); ok && ld.X == ssa.Value(g) {
						return nil, false
					}
				}
			}
		}
	}
	for _, b := range init.Blocks {
		for _, in := range b.Instrs {
			if st, ok := in.(*ssa.Store); ok && st.Addr == ssa.Value(g) {
				stores++
				mk = st.Val
			}
		}
	}
	if mk == nil {
		return nil, false
	}
	if _, ok := mk.(*ssa.MakeMap); !ok || mk.Referrers() == nil {
		return nil, false
	}
	out := map[string]string{}
	for _, rf := range *mk.Referrers() {
		mu, ok := rf.(*ssa.MapUpdate)
		if !ok {
			continue
		}
		ks, ok1 := constString(mu.Key)
		vs, ok2 := constString(mu.Value)
		if !ok1 || !ok2 {
			return nil, false
		}
		out[ks] = vs
	}
	return out, true
}
