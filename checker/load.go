package main

import (
	"fmt"
	"go/ast"
	"go/token"
	"go/types"
	"os"
	"os/exec"
	"path/filepath"
	"sort"
	"strings"
	"sync"

	"golang.org/x/tools/go/callgraph"
	"golang.org/x/tools/go/callgraph/cha"
	"golang.org/x/tools/go/callgraph/vta"
	"golang.org/x/tools/go/packages"
	"golang.org/x/tools/go/ssa"
	"golang.org/x/tools/go/ssa/ssautil"
)

const sodPath = "github.com/0xrawsec/sod"

// Prog is the resolved program every engine works on.
type Prog struct {
	Repo        string
	Fset        *token.FileSet
	Pkg         *packages.Package
	Types       *types.Package
	Info        *types.Info
	SSA         *ssa.Program
	SPkg        *ssa.Package
	CG          *callgraph.Graph
	Files       []string        // base names of analysed files
	Funcs       []*ssa.Function // all functions with bodies belonging to the sod package (incl. closures)
	NPkgs       int
	A           *Anchors
	GoRoot      map[*ssa.Function]bool // started by a go statement (closure or named function)
	GoOnly      map[*ssa.Function]bool // runs only on spawned goroutines: a go root, or called only from such functions
	idxDelCache map[*ssa.Function]bool
	idxDelMu    sync.Mutex
}

type brokenCheck struct{ msg string }

// broken aborts the run as a broken check (exit 2, no VIOLATION line).
func broken(format string, a ...interface{}) {
	panic(brokenCheck{fmt.Sprintf(format, a...)})
}

// Load type-checks the current working tree of repo and builds SSA + call graph.
// overlay maps absolute file names to replacement contents (variants).
func Load(repo string, overlay map[string][]byte, needCG bool) *Prog {
	os.Unsetenv("GOWORK")
	env := append(os.Environ(), "GOFLAGS=-mod=mod", "GOPROXY=off", "GOSUMDB=off", "GOTOOLCHAIN=local", "GOWORK=off")
	cfg := &packages.Config{
		Mode:    packages.LoadAllSyntax,
		Dir:     repo,
		Env:     env,
		Tests:   false,
		Overlay: overlay,
	}
	pkgs, err := packages.Load(cfg, "./...")
	if err != nil {
		broken("packages.Load: %v", err)
	}
	if len(pkgs) == 0 {
		broken("no packages loaded from %s", repo)
	}
	var sod *packages.Package
	for _, p := range pkgs {
		if p.PkgPath == sodPath {
			sod = p
		}
	}
	if sod == nil {
		broken("package %s not found under %s", sodPath, repo)
	}
	nerr := 0
	packages.Visit(pkgs, nil, func(p *packages.Package) {
		for _, e := range p.Errors {
			fmt.Fprintf(os.Stderr, "load error: %v\n", e)
			nerr++
		}
	})
	if nerr > 0 {
		broken("%d type/load errors", nerr)
	}
	if len(sod.IgnoredFiles) > 0 {
		// a file excluded by a build constraint could hide code from the analysis
		var ign []string
		for _, f := range sod.IgnoredFiles {
			if !strings.HasSuffix(f, "_test.go") {
				ign = append(ign, filepath.Base(f))
			}
		}
		if len(ign) > 0 {
			broken("files ignored by build constraints: %v", ign)
		}
	}
	p := &Prog{Repo: repo, Fset: sod.Fset, Pkg: sod, Types: sod.Types, Info: sod.TypesInfo, NPkgs: len(pkgs)}
	for _, f := range sod.GoFiles {
		p.Files = append(p.Files, filepath.Base(f))
	}
	sort.Strings(p.Files)
	// every non-test .go file in the directory must be part of the analysed package
	ents, _ := os.ReadDir(repo)
	for _, e := range ents {
		n := e.Name()
		if strings.HasSuffix(n, ".go") && !strings.HasSuffix(n, "_test.go") {
			found := false
			for _, f := range p.Files {
				if f == n {
					found = true
				}
			}
			if !found {
				broken("source file %s is not part of the analysed package", n)
			}
		}
	}
	prog, _ := ssautil.AllPackages(pkgs, ssa.InstantiateGenerics)
	prog.Build()
	p.SSA = prog
	p.SPkg = prog.Package(sod.Types)
	if p.SPkg == nil {
		broken("no SSA package for sod")
	}
	for fn := range ssautil.AllFunctions(prog) {
		if fn.Pkg == p.SPkg && fn.Blocks != nil {
			p.Funcs = append(p.Funcs, fn)
		} else if fn.Pkg == nil && fn.Blocks != nil && fn.Object() != nil && fn.Object().Pkg() == sod.Types {
			// wrappers/thunks of sod methods
			p.Funcs = append(p.Funcs, fn)
		}
	}
	sort.Slice(p.Funcs, func(i, j int) bool { return p.Funcs[i].String() < p.Funcs[j].String() })
	if len(p.Funcs) < 50 {
		broken("only %d sod functions found", len(p.Funcs))
	}
	if needCG {
		p.CG = vta.CallGraph(ssautil.AllFunctions(prog), cha.CallGraph(prog))
	}
	p.findGoRoots()
	p.A = resolveAnchors(p)
	return p
}

// findGoRoots records which sod functions are goroutine bodies (the operand of a go statement, closure or named) and
// which run only on such goroutines (every static call site is in a go root or in another goroutine-only function).
func (p *Prog) findGoRoots() {
	p.GoRoot, p.GoOnly = map[*ssa.Function]bool{}, map[*ssa.Function]bool{}
	callers := map[*ssa.Function][]*ssa.Function{}
	plain := map[*ssa.Function]bool{} // has an ordinary (non-go) call site outside goroutine-only code, decided below
	for _, fn := range p.Funcs {
		for _, b := range fn.Blocks {
			for _, in := range b.Instrs {
				switch v := in.(type) {
				case *ssa.Go:
					if mc, ok := v.Call.Value.(*ssa.MakeClosure); ok {
						p.GoRoot[mc.Fn.(*ssa.Function)] = true
					} else if f := v.Call.StaticCallee(); f != nil && inSodPkg(p, f) {
						p.GoRoot[f] = true
					}
				case ssa.CallInstruction:
					if f := v.Common().StaticCallee(); f != nil && inSodPkg(p, f) {
						callers[f] = append(callers[f], fn)
					}
				}
			}
		}
	}
	_ = plain
	for f := range p.GoRoot {
		if len(callers[f]) == 0 && !(f.Parent() == nil && ast.IsExported(f.Name())) {
			p.GoOnly[f] = true
		}
	}
	for changed := true; changed; {
		changed = false
		for _, f := range p.Funcs {
			if p.GoOnly[f] || f.Parent() != nil || ast.IsExported(f.Name()) || len(callers[f]) == 0 || p.GoRoot[f] {
				continue
			}
			all := true
			for _, c := range callers[f] {
				if !p.GoOnly[c] {
					all = false
				}
			}
			if all {
				p.GoOnly[f] = true
				changed = true
			}
		}
	}
}

func inSodPkg(p *Prog, f *ssa.Function) bool {
	for f.Parent() != nil {
		f = f.Parent()
	}
	return f.Pkg == p.SPkg || (f.Pkg == nil && f.Object() != nil && f.Object().Pkg() == p.Types)
}

// Pos renders a position relative to the repo (file:line).
func (p *Prog) Pos(pos token.Pos) string {
	if !pos.IsValid() {
		return "-"
	}
	ps := p.Fset.Position(pos)
	return fmt.Sprintf("%s:%d", filepath.Base(ps.Filename), ps.Line)
}

// FuncName gives a short stable name for an SSA function.
func FuncName(fn *ssa.Function) string {
	if fn == nil {
		return "?"
	}
	s := fn.String()
	s = strings.ReplaceAll(s, sodPath+".", "")
	s = strings.ReplaceAll(s, "("+sodPath+")", "")
	return s
}

// FuncByName finds a package-level function or method "T.m" / "f" by name; a private function that is not
// found under that name (renamed) is looked up by shape (finders.go).
func (p *Prog) FuncByName(name string) *ssa.Function {
	if f := p.funcByExactName(name); f != nil {
		return f
	}
	if p.A == nil {
		return nil
	}
	if fd, ok := finders[name]; ok {
		if f := fd(p); f != nil {
			return f
		}
	}
	return typeMethodFinder(p, name)
}

func (p *Prog) funcByExactName(name string) *ssa.Function {
	if i := strings.Index(name, "."); i >= 0 {
		tn, mn := name[:i], name[i+1:]
		obj := p.Types.Scope().Lookup(tn)
		if obj == nil {
			return nil
		}
		for _, t := range []types.Type{obj.Type(), types.NewPointer(obj.Type())} {
			ms := p.SSA.MethodSets.MethodSet(t)
			for i := 0; i < ms.Len(); i++ {
				if ms.At(i).Obj().Name() == mn {
					fn := p.SSA.MethodValue(ms.At(i))
					// prefer the declared method, not a wrapper
					if fn != nil && fn.Synthetic != "" {
						if f2 := p.SSA.FuncValue(ms.At(i).Obj().(*types.Func)); f2 != nil {
							return f2
						}
					}
					return fn
				}
			}
		}
		return nil
	}
	if m, ok := p.SPkg.Members[name].(*ssa.Function); ok {
		return m
	}
	return nil
}

// Roots: exported functions, exported methods of exported types, goroutine closures.
func (p *Prog) Roots() []*ssa.Function {
	var roots []*ssa.Function
	seen := map[*ssa.Function]bool{}
	add := func(f *ssa.Function) {
		if f != nil && f.Blocks != nil && !seen[f] {
			seen[f] = true
			roots = append(roots, f)
		}
	}
	for _, m := range p.SPkg.Members {
		switch m := m.(type) {
		case *ssa.Function:
			if ast.IsExported(m.Name()) {
				add(m)
			}
		case *ssa.Type:
			if !ast.IsExported(m.Name()) {
				continue
			}
			for _, t := range []types.Type{m.Type(), types.NewPointer(m.Type())} {
				ms := p.SSA.MethodSets.MethodSet(t)
				for i := 0; i < ms.Len(); i++ {
					fo, ok := ms.At(i).Obj().(*types.Func)
					if !ok || !fo.Exported() || fo.Pkg() != p.Types {
						continue
					}
					// skip promoted methods (declared on an embedded type)
					add(p.SSA.FuncValue(fo))
				}
			}
		}
	}
	// goroutine closures
	for _, fn := range p.Funcs {
		for _, b := range fn.Blocks {
			for _, in := range b.Instrs {
				if g, ok := in.(*ssa.Go); ok {
					if mc, ok := g.Call.Value.(*ssa.MakeClosure); ok {
						add(mc.Fn.(*ssa.Function))
					} else if f := g.Call.StaticCallee(); f != nil && f.Pkg == p.SPkg {
						add(f)
					}
				}
			}
		}
	}
	sort.Slice(roots, func(i, j int) bool { return roots[i].String() < roots[j].String() })
	return roots
}

// gcBCE runs the compiler's bounds-check-elimination debug listing on the package.
func gcBCE(repo string) (map[string]bool, error) {
	cmd := exec.Command("go", "build", "-gcflags="+sodPath+"=-d=ssa/check_bce/debug=1", "-o", os.DevNull, ".")
	cmd.Dir = repo
	cmd.Env = append(os.Environ(), "GOFLAGS=-mod=mod", "GOPROXY=off", "GOSUMDB=off", "GOTOOLCHAIN=local", "GOWORK=off")
	out, err := cmd.CombinedOutput()
	res := map[string]bool{}
	for _, l := range strings.Split(string(out), "\n") {
		// ./utils.go:173:27: Found IsInBounds
		if !strings.Contains(l, "Found IsInBounds") && !strings.Contains(l, "Found IsSliceInBounds") {
			continue
		}
		parts := strings.SplitN(strings.TrimPrefix(l, "./"), ":", 4)
		if len(parts) >= 3 {
			res[parts[0]+":"+parts[1]] = true
		}
	}
	if len(res) == 0 && err != nil {
		return nil, fmt.Errorf("go build (bce): %v: %s", err, out)
	}
	return res, nil
}

// IsIndexDelete: f removes an object from the object index: within two calls it deletes from a membership map of the
// object index (uuid -> id or id -> uuid) and never adds to one. (An insertion helper split off the accepting insertion
// writes the same structures but adds membership entries.)
func (p *Prog) IsIndexDelete(f *ssa.Function) bool {
	p.idxDelMu.Lock()
	if p.idxDelCache == nil {
		p.idxDelCache = map[*ssa.Function]bool{}
	}
	v, ok := p.idxDelCache[f]
	p.idxDelMu.Unlock()
	if ok {
		return v
	}
	a := p.A
	dels, adds := false, false
	for _, g := range calleesWithinNoC(p, f, 2) {
		for _, b := range g.Blocks {
			for _, in := range b.Instrs {
				switch v := in.(type) {
				case *ssa.MapUpdate:
					if n, fld, _ := loadedField(v.Map); n == a.ObjIndex && (fld == a.OIUuids || fld == a.OIObjectIds) {
						adds = true
					}
				case *ssa.Call:
					if bi, ok := v.Call.Value.(*ssa.Builtin); ok && bi.Name() == "delete" && len(v.Call.Args) > 0 {
						if n, fld, _ := loadedField(v.Call.Args[0]); n == a.ObjIndex && (fld == a.OIUuids || fld == a.OIObjectIds) {
							dels = true
						}
					}
				}
			}
		}
	}
	res := dels && !adds
	p.idxDelMu.Lock()
	p.idxDelCache[f] = res
	p.idxDelMu.Unlock()
	return res
}

// calleesWithinNoC: f and the sod functions reachable from it through at most depth static calls.
func calleesWithinNoC(p *Prog, f *ssa.Function, depth int) []*ssa.Function {
	seen := map[*ssa.Function]bool{f: true}
	out := []*ssa.Function{f}
	frontier := []*ssa.Function{f}
	for d := 0; d < depth; d++ {
		var next []*ssa.Function
		for _, g := range frontier {
			for _, b := range g.Blocks {
				for _, in := range b.Instrs {
					if ci, ok := in.(ssa.CallInstruction); ok {
						if h := ci.Common().StaticCallee(); h != nil && h.Blocks != nil && !seen[h] && inSodPkg(p, h) {
							seen[h] = true
							out = append(out, h)
							next = append(next, h)
						}
					}
				}
			}
		}
		frontier = next
	}
	return out
}
