package main

import (
	"compress/gzip"
	"encoding/json"
	"fmt"
	"go/token"
	"go/types"
	"io"
	"os"
	"path/filepath"
	"regexp"
	"sort"
	"strings"

	"golang.org/x/tools/go/ssa"
)

// ---- C18 ------------------------------------------------------------------------------

// formatDescriptor extracts everything that determines the on-disk format from the source.
func formatDescriptor(p *Prog) map[string]interface{} {
	a := p.A
	d := map[string]interface{}{}
	keys := func(t types.Type) map[string]string { return jsonKeys(t) }
	d["keys.Schema"] = keys(a.Schema)
	if fdm, ok := a.SchFields.Type().Underlying().(*types.Map); ok {
		d["keys.FieldDescriptor"] = keys(fdm.Elem())
	}
	d["keys.Constraints"] = keys(a.FIConstraints.Type())
	d["keys.fieldIndex(write)"] = keys(a.FieldIndex)
	if mr := codecArgTypes(p, p.FuncByName(a.FieldIndex.Obj().Name()+".UnmarshalJSON"), xJsonUnmarshal); len(mr) == 1 {
		d["keys.fieldIndex(read)"] = keys(mr[0])
	}
	for _, n := range []*types.Named{a.Async, a.ObjIndex} {
		if mw := codecArgTypes(p, p.FuncByName(n.Obj().Name()+".MarshalJSON"), xJsonMarshal); len(mw) == 1 {
			d["keys."+n.Obj().Name()+"(write)"] = keys(mw[0])
		}
		if mr := codecArgTypes(p, p.FuncByName(n.Obj().Name()+".UnmarshalJSON"), xJsonUnmarshal); len(mr) == 1 {
			d["keys."+n.Obj().Name()+"(read)"] = keys(mr[0])
		}
	}
	name := a.IndexedField.Obj().Name()
	d["tuple.write"] = tupleOrderEnc(p, p.FuncByName(name+".MarshalJSON"))
	d["tuple.read"] = tupleOrderDec(p, p.FuncByName(name+".UnmarshalJSON"))
	if a.SchemaFilename != nil {
		d["const.SchemaFilename"] = constantString(a.SchemaFilename)
	}
	for _, g := range []string{"DefaultExtension", "compressedExtension"} {
		if gv, ok := p.SPkg.Members[g].(*ssa.Global); ok {
			d["var."+g] = globalStringInit(p, gv)
		}
	}
	// uuid pattern: the constant handed to regexp.MustCompile in the package initialiser
	if init := p.SPkg.Func("init"); init != nil {
		for _, b := range init.Blocks {
			for _, in := range b.Instrs {
				if call, ok := in.(*ssa.Call); ok && classifyExternal(call.Call.StaticCallee()) == xRegexpCompile {
					if s, ok := constString(call.Call.Args[0]); ok {
						d["pattern.uuid"] = s
					}
				}
			}
		}
	}
	// file name = namer(uuid, extension, compress)
	if fn := p.FuncByName("Schema.filenameFromUUID"); fn != nil {
		names := map[string]string{}
		for _, compress := range []bool{false, true} {
			env := &EvalEnv{P: p}
			env.CallHook = func(callee *ssa.Function, args []AV) ([]AV, bool) {
				if callee != nil && callee.Object() != nil && callee.Object().Pkg() != nil && callee.Object().Pkg().Path() == "fmt" && callee.Name() == "Sprintf" {
					out := ""
					if len(args) == 2 && args[1].K == avSlice {
						for _, el := range args[1].Elems {
							v := el
							if v.K == avIface && v.Inner != nil {
								v = *v.Inner
							}
							switch v.K {
							case avStr:
								out += v.S
							case avOpaque:
								out += "<" + v.S + ">"
							default:
								return nil, false
							}
						}
						return []AV{avS(out)}, true
					}
				}
				return nil, false
			}
			obj := newAObj(a.Schema, map[string]AV{a.SchCompress.Name(): avB(compress), a.SchExtension.Name(): avS("<ext>")})
			res, out := env.Eval(fn, []AV{{K: avPtr, Obj: obj}, avS("<uuid>")}, 0)
			if out == "return" && len(res) == 1 && res[0].K == avStr {
				names[fmt.Sprintf("compress=%v", compress)] = res[0].S
			} else {
				names[fmt.Sprintf("compress=%v", compress)] = "undecided: " + env.Why
			}
		}
		d["filename"] = names
	}
	// directory name: which functions build it
	d["dirname.number_of_readers_of_LowercaseNames"] = len(readersOfGlobal(p, "LowercaseNames"))
	// object encoding: the bytes handed to the object writer come straight from json.Marshal(object)
	enc := []string{}
	for _, fn := range p.Funcs {
		for _, b := range fn.Blocks {
			for _, in := range b.Instrs {
				call, ok := in.(*ssa.Call)
				if !ok || classifyExternal(call.Call.StaticCallee()) != xJsonMarshal {
					continue
				}
				if jsonEncKind(p, &call.Call) != EJsonEncObj {
					continue
				}
				// does result #0 reach a call of a sod function that writes object files?
				if refs := call.Referrers(); refs != nil {
					for _, rf := range *refs {
						if ex, ok := rf.(*ssa.Extract); ok && ex.Index == 0 && reachesWriter(p, ex, 0) {
							enc = append(enc, FuncName(fn)+": json.Marshal(object) -> writer")
						}
					}
				}
			}
		}
	}
	sort.Strings(enc)
	if len(enc) > 0 {
		d["object.encoding"] = "the bytes handed to the object writer are the result of json.Marshal(object)"
	} else {
		d["object.encoding"] = "no json.Marshal(object) result reaches the object writer"
	}
	d["object.encoding.sites(informational)"] = len(enc)
	// gzip iff compress
	if wr := p.FuncByName("writeReader"); wr != nil {
		gz := "no gzip writer"
		underCompress := func(b *ssa.BasicBlock) bool {
			for dm := b; dm != nil; dm = dm.Idom() {
				if ifi, ok := dm.Instrs[len(dm.Instrs)-1].(*ssa.If); ok {
					if pr, ok := ifi.Cond.(*ssa.Parameter); ok && pr.Name() == "compress" && dm != b && (dm.Succs[0] == b || dm.Succs[0].Dominates(b)) {
						return true
					}
				}
			}
			return false
		}
		makesGzip := func(g *ssa.Function) []*ssa.BasicBlock {
			var out []*ssa.BasicBlock
			for _, b := range g.Blocks {
				for _, in := range b.Instrs {
					if call, ok := in.(*ssa.Call); ok && call.Call.StaticCallee() != nil && classifyExternal(call.Call.StaticCallee()) == xGzip && strings.HasPrefix(call.Call.StaticCallee().Name(), "NewWriter") {
						out = append(out, b)
					}
				}
			}
			return out
		}
		for _, b := range makesGzip(wr) {
			gz = "gzip writer not guarded by the compress flag"
			if underCompress(b) {
				gz = "gzip iff compress"
			}
		}
		// the compressor may be made by a private helper that the writer calls under the flag
		for _, b := range wr.Blocks {
			for _, in := range b.Instrs {
				if call, ok := in.(*ssa.Call); ok {
					if g := call.Call.StaticCallee(); g != nil && g != wr && inSod(p, g) && g.Blocks != nil && len(makesGzip(g)) > 0 {
						if underCompress(b) {
							if gz == "no gzip writer" {
								gz = "gzip iff compress"
							}
						} else {
							gz = "gzip writer not guarded by the compress flag"
						}
					}
				}
			}
		}
		d["object.compression"] = gz
	}
	return d
}

func reachesWriter(p *Prog, v ssa.Value, depth int) bool {
	if depth > 6 {
		return false
	}
	refs := v.Referrers()
	if refs == nil {
		return false
	}
	for _, rf := range *refs {
		switch u := rf.(type) {
		case *ssa.Call:
			f := u.Call.StaticCallee()
			if f != nil && inSod(p, f) {
				return true // handed to a sod function (writer); its own flow is checked where it is defined
			}
			if f != nil && f.Object() != nil && f.Object().Pkg() != nil && f.Object().Pkg().Path() == "bytes" {
				if reachesWriter(p, u, depth+1) {
					return true
				}
			}
		case *ssa.Store:
			if al, ok := u.Addr.(*ssa.Alloc); ok {
				if ar := al.Referrers(); ar != nil {
					for _, r2 := range *ar {
						if ld, ok := r2.(*ssa.UnOp); ok && ld.Op == token.MUL && reachesWriter(p, ld, depth+1) {
							return true
						}
					}
				}
			}
		case *ssa.Phi:
			if reachesWriter(p, u, depth+1) {
				return true
			}
		case *ssa.MakeInterface:
			if reachesWriter(p, u, depth+1) {
				return true
			}
		case *ssa.ChangeInterface:
			if reachesWriter(p, u, depth+1) {
				return true
			}
		case *ssa.Convert:
			if reachesWriter(p, u, depth+1) {
				return true
			}
		}
	}
	return false
}

func normJSON(v interface{}) interface{} {
	b, _ := json.Marshal(v)
	var out interface{}
	json.Unmarshal(b, &out)
	return out
}

func diffJSON(path string, a, b interface{}, out *[]string) {
	switch av := a.(type) {
	case map[string]interface{}:
		bv, ok := b.(map[string]interface{})
		if !ok {
			*out = append(*out, fmt.Sprintf("%s: %v -> %v", path, a, b))
			return
		}
		keys := map[string]bool{}
		for k := range av {
			keys[k] = true
		}
		for k := range bv {
			keys[k] = true
		}
		for _, k := range sortedKeys(keys) {
			x, okx := av[k]
			y, oky := bv[k]
			switch {
			case !okx:
				*out = append(*out, fmt.Sprintf("%s.%s: added (%v)", path, k, y))
			case !oky:
				*out = append(*out, fmt.Sprintf("%s.%s: removed (was %v)", path, k, x))
			default:
				diffJSON(path+"."+k, x, y, out)
			}
		}
	default:
		if fmt.Sprint(a) != fmt.Sprint(b) {
			*out = append(*out, fmt.Sprintf("%s: %v -> %v", path, a, b))
		}
	}
}

func checkC18(p *Prog, r *Result, tier string) {
	r.Rule("C18.R1", "the format descriptor extracted from the current source (JSON keys and kinds of every persisted type, writer and reader side; index tuple layout; schema file name, default extension, compressed suffix, uuid pattern; file-name composition; object encoding = json.Marshal of the object handed unmodified to the writer; gzip iff compress) equals the descriptor frozen from the pinned release", 10)
	r.Rule("C18.R2", "every artefact of a corpus written by the pinned release (4 configurations) conforms to the current descriptor: schema keys known to the reader, required keys present, index entries are [value, id] tuples whose value matches the field's cast, one file per indexed uuid named <uuid><extension>[<compressed suffix>], object files are (gzip-compressed iff compress) plain JSON objects, directory named after the struct type", 20)
	r.Rule("C18.R4", "file discovery inverts the namer (finite evaluation over the name shapes the namer can produce: extensions with one or several dots, with and without the compressed suffix): the function that splits a directory entry returns exactly the uuid part, and the temporary name used by the atomic writer is not taken for an object file", 5)
	r.Rule("C18.R3", "writer/reader agreement inside the current build (shared with C04.R3)", 4)
	r.NotDecided = []string{"that legacy data decodes to the same VALUES and searches identically (would need execution)", "the snake-case conversion of type names under LowercaseNames (value computation)"}
	goldenPath := filepath.Join(verifDir, "golden", "format.json")
	cur := normJSON(formatDescriptor(p)).(map[string]interface{})
	r.Extra["format_descriptor"] = cur
	gb, err := os.ReadFile(goldenPath)
	if err != nil {
		r.Report("C18.R1", "-", "golden descriptor", Undecided, "golden descriptor not readable: "+err.Error(), "", nil, false)
	} else {
		var golden map[string]interface{}
		json.Unmarshal(gb, &golden)
		keys := map[string]bool{}
		for k := range cur {
			keys[k] = true
		}
		for k := range golden {
			keys[k] = true
		}
		for _, k := range sortedKeys(keys) {
			if strings.Contains(k, "(informational)") {
				continue
			}
			var diffs []string
			x, okx := golden[k]
			y, oky := cur[k]
			switch {
			case !okx:
				diffs = []string{"new descriptor entry (not in the pinned release): " + fmt.Sprint(y)}
			case !oky:
				diffs = []string{"descriptor entry of the pinned release is gone"}
			default:
				diffJSON(k, x, y, &diffs)
			}
			if len(diffs) == 0 {
				r.Report("C18.R1", "format", k, Discharged, "", "", nil, true)
			} else {
				r.Report("C18.R1", "format", k, Violated, "the on-disk format differs from the pinned release: "+strings.Join(diffs, "; "), "", nil, true)
			}
		}
	}
	checkDiscovery(p, r, "C18.R4", "C18.R4")
	checkCorpus(p, r, "C18.R2", cur)
	checkCodecSiblings(p, r, "C18.R3")
}

var verifDir = "/verif"

func init() { register("C18", checkC18) }

// checkCorpus parses the golden artefacts as plain JSON and checks them against the current descriptor.
func checkCorpus(p *Prog, r *Result, rule string, desc map[string]interface{}) {
	root := filepath.Join(verifDir, "golden", "corpus")
	cfgs, err := os.ReadDir(root)
	if err != nil || len(cfgs) == 0 {
		r.Report(rule, "-", "corpus", Undecided, "golden corpus not found", "", nil, false)
		return
	}
	str := func(k string) string { s, _ := desc[k].(string); return s }
	keysOf := func(k string) map[string]interface{} { m, _ := desc[k].(map[string]interface{}); return m }
	uuidRe, rerr := regexp.Compile(str("pattern.uuid"))
	if rerr != nil {
		r.Report(rule, "-", "uuid pattern", Violated, "the uuid pattern does not compile: "+rerr.Error(), "", nil, true)
		return
	}
	suffix := str("var.compressedExtension")
	schemaName := str("const.SchemaFilename")
	for _, cfg := range cfgs {
		dirs, _ := os.ReadDir(filepath.Join(root, cfg.Name()))
		for _, d := range dirs {
			coll := filepath.Join(root, cfg.Name(), d.Name())
			fn := cfg.Name() + "/" + d.Name()
			rep := func(construct string, ok bool, detail string) {
				if ok {
					r.Report(rule, fn, construct, Discharged, "", "", nil, true)
				} else {
					r.Report(rule, fn, construct, Violated, detail, "", nil, true)
				}
			}
			sb, err := os.ReadFile(filepath.Join(coll, schemaName))
			if err != nil {
				rep("schema file present under the current name", false, "a collection written by the pinned release has no '"+schemaName+"': "+err.Error())
				continue
			}
			rep("schema file present under the current name", true, "")
			var sch map[string]interface{}
			if err := json.Unmarshal(sb, &sch); err != nil {
				rep("schema is a JSON object", false, err.Error())
				continue
			}
			// keys known to the reader
			unknown := []string{}
			for k := range sch {
				if _, ok := keysOf("keys.Schema")[k]; !ok {
					unknown = append(unknown, k)
				}
			}
			rep("schema keys known to the reader", len(unknown) == 0, fmt.Sprintf("legacy schema carries keys the current reader ignores: %v", unknown))
			missing := []string{}
			for k, v := range keysOf("keys.Schema") {
				if _, ok := sch[k]; !ok && !strings.Contains(fmt.Sprint(v), "omitempty") {
					missing = append(missing, k)
				}
			}
			rep("required schema keys present", len(missing) == 0, fmt.Sprintf("keys the current reader expects are absent from legacy data: %v", missing))
			ext, _ := sch["extension"].(string)
			compress, _ := sch["compress"].(bool)
			idx, _ := sch["index"].(map[string]interface{})
			ids, _ := idx["object-ids"].(map[string]interface{})
			fields, _ := idx["fields"].(map[string]interface{})
			okIdx := idx != nil && ids != nil && fields != nil
			for k := range idx {
				if _, ok := keysOf("keys.objIndex(read)")[k]; !ok {
					okIdx = false
				}
			}
			rep("index object has the keys the reader decodes", okIdx, "the index object of legacy data does not match the reader's key set")
			// tuples
			badTuple := ""
			for fname, fv := range fields {
				fo, _ := fv.(map[string]interface{})
				for k := range fo {
					if _, ok := keysOf("keys.fieldIndex(read)")[k]; !ok {
						badTuple = "field index " + fname + " has key " + k + " unknown to the reader"
					}
				}
				cast, _ := fo["cast"].(string)
				entries, _ := fo["index"].([]interface{})
				for _, e := range entries {
					t, _ := e.([]interface{})
					if len(t) != 2 {
						badTuple = "entry of " + fname + " is not a pair"
						continue
					}
					if _, ok := t[1].(float64); !ok {
						badTuple = "entry id of " + fname + " is not a number"
					}
					switch cast {
					case "string":
						if _, ok := t[0].(string); !ok {
							badTuple = "string-cast entry of " + fname + " is not a string"
						}
					case "int64", "uint64", "float64":
						if _, ok := t[0].(float64); !ok {
							badTuple = cast + "-cast entry of " + fname + " is not a number"
						}
					default:
						badTuple = "cast " + cast + " of " + fname + " unknown"
					}
				}
			}
			rep("index entries are [value, id] tuples matching the cast", badTuple == "", badTuple)
			// files
			ents, _ := os.ReadDir(coll)
			onDisk := map[string]bool{}
			badFile := ""
			for _, e := range ents {
				if e.Name() == schemaName {
					continue
				}
				name := e.Name()
				want := ext
				if compress {
					want += suffix
				}
				if !strings.HasSuffix(name, want) {
					badFile = "file " + name + " does not end in " + want
					continue
				}
				u := strings.TrimSuffix(name, want)
				if !uuidRe.MatchString(u) {
					badFile = "file " + name + " is not uuid-shaped under the current pattern"
					continue
				}
				onDisk[u] = true
				// content: plain JSON object, gzip iff compress
				f, err := os.Open(filepath.Join(coll, name))
				if err != nil {
					badFile = err.Error()
					continue
				}
				var rd io.Reader = f
				if compress {
					if gz, err := gzip.NewReader(f); err == nil {
						rd = gz
					} else {
						badFile = "compressed collection holds a non-gzip file " + name
					}
				}
				b, _ := io.ReadAll(rd)
				f.Close()
				var obj map[string]interface{}
				if err := json.Unmarshal(b, &obj); err != nil {
					badFile = "object file " + name + " is not a plain JSON object: " + err.Error()
				}
			}
			rep("object files named <uuid><extension>[suffix] holding plain JSON", badFile == "", badFile)
			same := len(ids) == len(onDisk)
			for _, u := range ids {
				if us, _ := u.(string); !onDisk[us] {
					same = false
				}
			}
			rep("exactly one file per indexed object", same, fmt.Sprintf("indexed uuids (%d) and object files (%d) differ under the current naming", len(ids), len(onDisk)))
		}
	}
}

// ---- C13 ------------------------------------------------------------------------------

func checkC13(p *Prog, r *Result, tier string) {
	r.Rule("C13.R1", "no hop reorders: no call into sort or math/rand in the package; the search iterator is filled by an unconditional append (or a store at the position the loop counts) per result entry, in range order; the collector appends in iteration order", 3)
	r.Rule("C13.R2", "Reverse is honoured: reversed() sets the flag and the cursor to len-1; next() decrements the cursor iff the flag is set and increments it otherwise; collect calls reversed() only under the search's reverse flag and before the first next()", 3)
	r.Rule("C13.R6", "the iterator makes progress: in next(), every path from the read of the current element to a return steps the cursor, also when the read failed (callers such as the bulk delete continue after a read error and rely on reaching the end)", 1)
	r.Rule("C13.R7", "the sorted slice of a field index stays sorted by construction: it is written only (a) in a function that computes the position with the bisection, (b) by compaction (append of two sub-slices of itself), (c) by replacing it with an empty slice, or (d) by the decoder, whose result the index control checks for order", 3)
	checkSortedSliceWriters(p, r, "C13.R7")
	r.Rule("C13.R8", "the '!=' result keeps the index order: the range function of the '!=' operator places the part of the index in front of the equal range (greater values, a slice of the index from its start) before the part behind it (a slice of the index up to its end)", 1)
	checkNotEqualOrder(p, r, "C13.R8")
	r.Rule("C13.R3", "Limit pairing: in the collecting loop every append to the output is paired with exactly one limit decrement in the same block, and the loop guard tests limit > 0 before each append", 2)
	r.Rule("C13.R4", "One: sets the limit to the constant 1 before collecting, returns element 0, and reports ErrNoObjectFound on an empty result", 3)
	r.Rule("C13.R5", "AssignIndex identity mapping: the target slice is made with len(index) elements and every element i of the target is set from element i of the index (same induction variable)", 2)
	r.NotDecided = []string{"that the index slice itself is sorted (insert position arithmetic, C02)", "order among ties", "numeric conversions in assignIndex"}
	a := p.A
	// R1
	var offenders []string
	for _, fn := range p.Funcs {
		for _, b := range fn.Blocks {
			for _, in := range b.Instrs {
				if ci, ok := in.(ssa.CallInstruction); ok {
					if f := ci.Common().StaticCallee(); f != nil && f.Object() != nil && f.Object().Pkg() != nil {
						switch f.Object().Pkg().Path() {
						case "sort", "math/rand", "slices":
							offenders = append(offenders, FuncName(fn)+" calls "+f.Object().Pkg().Path()+"."+f.Name())
						}
					}
				}
			}
		}
	}
	if len(offenders) == 0 {
		r.Report("C13.R1", "package", "no sort / rand", Discharged, "", "", nil, true)
	} else {
		r.Report("C13.R1", "package", "no sort / rand", Violated, "result order could be changed by: "+strings.Join(offenders, "; "), "", nil, true)
	}
	uncondAppend := func(fn *ssa.Function, what string) {
		if fn == nil {
			r.Report("C13.R1", what, "order-preserving transfer", Undecided, "function not found", "", nil, false)
			return
		}
		ok := false
		var loops []natLoop
		loops = append(loops, naturalLoops(fn)...)
		if len(loops) == 0 {
			// the loop was moved into a helper (constructor of the iterator, collector helper)
			for _, g := range calleesWithin(p, fn, 1) {
				if g != fn && (g.Signature.Recv() == nil || recvIs(g, a.Iterator) || recvIs(g, a.Search)) {
					loops = append(loops, naturalLoops(g)...)
				}
			}
		}
		for _, lp := range loops {
			for _, b := range lp.blocks {
				for _, in := range b.Instrs {
					transfer := false
					if call, isC := in.(*ssa.Call); isC {
						if bi, isB := call.Call.Value.(*ssa.Builtin); isB && bi.Name() == "append" {
							transfer = true
						}
					}
					// position-for-position fill: a store at the position the loop itself counts (the value its header
					// compares with a length)
					if st, isS := in.(*ssa.Store); isS {
						if ia, isIA := st.Addr.(*ssa.IndexAddr); isIA {
							if hif, isIf := lp.header.Instrs[len(lp.header.Instrs)-1].(*ssa.If); isIf {
								if bo, isBo := hif.Cond.(*ssa.BinOp); isBo && bo.Op == token.LSS && bo.X == ia.Index {
									transfer = true
								}
							}
						}
					}
					if !transfer {
						continue
					}
					// unconditional: the block of the append is on every path header -> back edge (it dominates the latch)
					for _, lb := range lp.blocks {
						for _, s := range lb.Succs {
							if s == lp.header && (b == lb || b.Dominates(lb)) {
								ok = true
							}
						}
					}
				}
			}
		}
		if ok {
			r.Report("C13.R1", FuncName(fn), "order-preserving transfer", Discharged, "one unconditional append (or store at the loop's own position) per element, in iteration order", p.Pos(fn.Pos()), nil, true)
		} else {
			r.Report("C13.R1", FuncName(fn), "order-preserving transfer", Violated, "the loop does not append every element unconditionally in iteration order (filtering or reordering hop)", p.Pos(fn.Pos()), nil, true)
		}
	}
	uncondAppend(p.FuncByName("Search.iterator"), "Search.iterator")
	uncondAppend(p.FuncByName("Search.collect"), "Search.collect")

	// R2
	itn := a.Iterator
	if itn == nil {
		r.Report("C13.R2", "iterator", "type", Undecided, "iterator type not found", "", nil, false)
	} else {
		var fi, frev *types.Var
		s := structOf(itn)
		for i := 0; i < s.NumFields(); i++ {
			if b, ok := s.Field(i).Type().Underlying().(*types.Basic); ok {
				if b.Kind() == types.Int {
					fi = s.Field(i)
				}
				if b.Kind() == types.Bool {
					frev = s.Field(i)
				}
			}
		}
		storesTo := func(b *ssa.BasicBlock, f *types.Var) []*ssa.Store {
			var out []*ssa.Store
			for _, in := range b.Instrs {
				if st, ok := in.(*ssa.Store); ok {
					if _, ff, _ := fieldOf(st.Addr); ff == f {
						out = append(out, st)
					}
				}
			}
			return out
		}
		delta := func(st *ssa.Store, f *types.Var) int {
			bo, ok := st.Val.(*ssa.BinOp)
			if !ok {
				return 0
			}
			if _, ff, _ := loadedField(bo.X); ff != f {
				return 0
			}
			c, ok := bo.Y.(*ssa.Const)
			if !ok || c.Value == nil || c.Value.String() != "1" {
				return 0
			}
			if bo.Op == token.ADD {
				return 1
			}
			if bo.Op == token.SUB {
				return -1
			}
			return 0
		}
		if nx := p.FuncByName(itn.Obj().Name() + ".next"); nx != nil {
			ok := false
			var blocks []*ssa.BasicBlock
			for _, f := range calleesWithin(p, nx, 1) {
				if f == nx || recvIs(f, itn) {
					blocks = append(blocks, f.Blocks...)
				}
			}
			for _, b := range blocks {
				ifi, isIf := b.Instrs[len(b.Instrs)-1].(*ssa.If)
				if !isIf {
					continue
				}
				if _, ff, _ := loadedField(ifi.Cond); ff != frev {
					continue
				}
				ts, fs := storesTo(b.Succs[0], fi), storesTo(b.Succs[1], fi)
				if len(ts) == 1 && len(fs) == 1 && delta(ts[0], fi) == -1 && delta(fs[0], fi) == 1 {
					ok = true
				}
			}
			if ok {
				r.Report("C13.R2", FuncName(nx), "cursor moves by -1 iff reversed, +1 otherwise", Discharged, "", p.Pos(nx.Pos()), nil, true)
			} else {
				r.Report("C13.R2", FuncName(nx), "cursor moves by -1 iff reversed, +1 otherwise", Violated, "next() does not step the cursor by -1 under the reverse flag and +1 otherwise", p.Pos(nx.Pos()), nil, true)
			}
		}
		if nx := p.FuncByName(itn.Obj().Name() + ".next"); nx != nil {
			checkIteratorProgress(p, computeClosures(p), r, "C13.R6", nx, itn, fi)
		}
		if rv := p.FuncByName(itn.Obj().Name() + ".reversed"); rv != nil {
			flag, cur := false, false
			for _, b := range rv.Blocks {
				for _, st := range storesTo(b, frev) {
					if c, ok := st.Val.(*ssa.Const); ok && c.Value != nil && c.Value.String() == "true" {
						flag = true
					}
				}
				for _, st := range storesTo(b, fi) {
					if bo, ok := st.Val.(*ssa.BinOp); ok && bo.Op == token.SUB {
						if call, ok := bo.X.(*ssa.Call); ok {
							isLen := false
							if bi, ok := call.Call.Value.(*ssa.Builtin); ok && bi.Name() == "len" {
								isLen = true
							} else if g := call.Call.StaticCallee(); g != nil && recvIs(g, itn) && g.Signature.Params().Len() == 0 && returnsLenOfList(g) {
								isLen = true // it.len()
							}
							if isLen {
								if c, ok := bo.Y.(*ssa.Const); ok && c.Value != nil && c.Value.String() == "1" {
									cur = true
								}
							}
						}
					}
				}
			}
			if flag && cur {
				r.Report("C13.R2", FuncName(rv), "sets the flag and cursor = len-1", Discharged, "", p.Pos(rv.Pos()), nil, true)
			} else {
				r.Report("C13.R2", FuncName(rv), "sets the flag and cursor = len-1", Violated, fmt.Sprintf("reversed() flag set: %v, cursor = len-1: %v", flag, cur), p.Pos(rv.Pos()), nil, true)
			}
			// collect: reversed() called under Search.reverse, before next
			if col := p.FuncByName("Search.collect"); col != nil {
				nx := p.FuncByName(itn.Obj().Name() + ".next")
				okc := false
				for _, b := range col.Blocks {
					for _, in := range b.Instrs {
						if call, ok := in.(*ssa.Call); ok && call.Call.StaticCallee() == rv {
							guard := false
							for d := b.Idom(); d != nil; d = d.Idom() {
								if ifi, ok := d.Instrs[len(d.Instrs)-1].(*ssa.If); ok {
									if _, ff, _ := loadedField(ifi.Cond); ff == a.SearchReverse && (d.Succs[0] == b || d.Succs[0].Dominates(b)) {
										guard = true
									}
								}
							}
							// no next() call can reach the reversed() call
							before := true
							for _, nb := range col.Blocks {
								for _, ni := range nb.Instrs {
									if nc, ok := ni.(*ssa.Call); ok && nc.Call.StaticCallee() == nx && blockReaches(nb, b) {
										before = false
									}
								}
							}
							if guard && before {
								okc = true
							}
						}
					}
				}
				if okc {
					r.Report("C13.R2", FuncName(col), "reversed() iff Search.reverse, before the first next()", Discharged, "", p.Pos(col.Pos()), nil, true)
				} else {
					r.Report("C13.R2", FuncName(col), "reversed() iff Search.reverse, before the first next()", Violated, "the collector does not flip the iterator exactly when Reverse was requested, before iterating", p.Pos(col.Pos()), nil, true)
				}
			}
		}
	}

	// R3
	if col := p.FuncByName("Search.collect"); col != nil {
		paired, guard := false, false
		// the collecting loop is the collector's own or that of a helper it hands the iterator to
		var colLoops []natLoop
		for _, f := range calleesWithin(p, col, 2) {
			if f != col && (!inSod(p, f) || named(recvType(f)) != a.Search) {
				continue
			}
			for _, lp := range naturalLoops(f) {
				drains := false
				for _, b := range lp.blocks {
					for _, in := range b.Instrs {
						if call, ok := in.(*ssa.Call); ok {
							if g := call.Call.StaticCallee(); g != nil && g.Signature.Recv() != nil && named(g.Signature.Recv().Type()) == a.Iterator {
								drains = true
							}
						}
					}
				}
				if drains || f == col {
					colLoops = append(colLoops, lp)
				}
			}
		}
		for _, lp := range colLoops {
			for _, b := range lp.blocks {
				apps, decs := 0, 0
				for _, in := range b.Instrs {
					if call, ok := in.(*ssa.Call); ok {
						if bi, ok := call.Call.Value.(*ssa.Builtin); ok && bi.Name() == "append" {
							apps++
						}
					}
					if st, ok := in.(*ssa.Store); ok {
						if _, ff, _ := fieldOf(st.Addr); ff == a.SearchLimit {
							if bo, ok := st.Val.(*ssa.BinOp); ok && bo.Op == token.SUB {
								if c, ok := bo.Y.(*ssa.Const); ok && c.Value != nil && c.Value.String() == "1" {
									decs++
								}
							}
						}
					}
				}
				if apps == 1 && decs == 1 {
					paired = true
				} else if apps > 0 && decs != apps {
					paired = false
				}
				// the limit is compared with 0 before the append of the same iteration: `limit > 0` / `limit != 0` to go
				// on, or `limit == 0` to stop (the limit is unsigned); the comparison may be an operand of a && / ||.
				// A comparison made after the append lets Limit(0) keep one object and wrap around.
				for ci, li := range b.Instrs {
					bo, ok := li.(*ssa.BinOp)
					if !ok || (bo.Op != token.GTR && bo.Op != token.EQL && bo.Op != token.NEQ) {
						continue
					}
					if _, ff, _ := loadedField(bo.X); ff != a.SearchLimit {
						continue
					}
					if c, ok := bo.Y.(*ssa.Const); !ok || c.Value == nil || c.Value.String() != "0" {
						continue
					}
					for _, ab := range lp.blocks {
						for ai, ain := range ab.Instrs {
							call, ok := ain.(*ssa.Call)
							if !ok {
								continue
							}
							if bi, ok := call.Call.Value.(*ssa.Builtin); !ok || bi.Name() != "append" {
								continue
							}
							if (ab == b && ci < ai) || (ab != b && b.Dominates(ab) && !ab.Dominates(b)) {
								guard = true
							}
						}
					}
				}
			}
		}
		if paired {
			r.Report("C13.R3", FuncName(col), "append paired with one limit decrement", Discharged, "", p.Pos(col.Pos()), nil, true)
		} else {
			r.Report("C13.R3", FuncName(col), "append paired with one limit decrement", Violated, "the collecting loop does not decrement the limit exactly once per appended object", p.Pos(col.Pos()), nil, true)
		}
		if guard {
			r.Report("C13.R3", FuncName(col), "loop guard tests limit > 0", Discharged, "", p.Pos(col.Pos()), nil, true)
		} else {
			r.Report("C13.R3", FuncName(col), "loop guard tests limit > 0", Violated, "in the collecting loop the limit is not compared with 0 before the append of the same iteration: Limit(n) would return more (or fewer) than min(n, matches) objects (Limit(0) keeps an object and the unsigned counter wraps around)", p.Pos(col.Pos()), nil, true)
		}
	}

	// R3b: the element list of an iterator is written only by its constructor and by the search's filler; the
	// collector must not truncate or re-slice it (the limit counts objects in the CHOSEN order)
	if itn != nil {
		var fl *types.Var
		s := structOf(itn)
		for i := 0; i < s.NumFields(); i++ {
			if sl, ok := s.Field(i).Type().Underlying().(*types.Slice); ok {
				if b, ok := sl.Elem().Underlying().(*types.Basic); ok && b.Info()&types.IsString != 0 {
					fl = s.Field(i)
				}
			}
		}
		allowed := map[string]bool{"newIterator": true, "(*Search).iterator": true}
		for _, fn := range p.Funcs {
			for _, b := range fn.Blocks {
				for _, in := range b.Instrs {
					if st, ok := in.(*ssa.Store); ok {
						if n, f, base := fieldOf(st.Addr); n == itn && f == fl {
							if _, isAlloc := base.(*ssa.Alloc); isAlloc {
								continue // composite literal in a constructor
							}
							// a function that fills an iterator it has just obtained from the constructor (and returns it)
							fresh := false
							if c0, ok := base.(*ssa.Call); ok {
								if g := c0.Call.StaticCallee(); g != nil && g.Signature.Results().Len() >= 1 && named(g.Signature.Results().At(0).Type()) == itn && g.Signature.Recv() == nil {
									fresh = true
								}
							}
							if allowed[FuncName(fn)] || fresh {
								r.Report("C13.R3", FuncName(fn), "iterator element list written by constructor/filler only", Discharged, "", p.Pos(in.Pos()), nil, true)
							} else {
								r.Report("C13.R3", FuncName(fn), "iterator element list written by constructor/filler only", Violated, "the iterator's element list is modified after it was filled: truncating it before the order is chosen makes Reverse+Limit return the wrong end of the result", p.Pos(in.Pos()), nil, true)
							}
						}
					}
				}
			}
		}
	}

	// R4
	if one := p.FuncByName("Search.one"); one != nil {
		col := p.FuncByName("Search.collect")
		setOne, before := false, false
		var setBlock *ssa.BasicBlock
		for _, b := range one.Blocks {
			for _, in := range b.Instrs {
				if st, ok := in.(*ssa.Store); ok {
					if _, ff, _ := fieldOf(st.Addr); ff == a.SearchLimit {
						if c, ok := st.Val.(*ssa.Const); ok && c.Value != nil && c.Value.String() == "1" {
							setOne = true
							setBlock = b
						}
					}
				}
			}
		}
		for _, b := range one.Blocks {
			for _, in := range b.Instrs {
				if call, ok := in.(*ssa.Call); ok && call.Call.StaticCallee() == col && setBlock != nil && (setBlock == b || setBlock.Dominates(b)) {
					before = true
				}
			}
		}
		if setOne && before {
			r.Report("C13.R4", FuncName(one), "limit = 1 before collecting", Discharged, "", p.Pos(one.Pos()), nil, true)
		} else {
			r.Report("C13.R4", FuncName(one), "limit = 1 before collecting", Violated, "One does not set the limit to 1 before collecting", p.Pos(one.Pos()), nil, true)
		}
		first := false
		for _, b := range one.Blocks {
			for _, in := range b.Instrs {
				if ia, ok := in.(*ssa.IndexAddr); ok {
					if c, ok := ia.Index.(*ssa.Const); ok && c.Value != nil && c.Value.String() == "0" {
						first = true
					}
				}
			}
		}
		if first {
			r.Report("C13.R4", FuncName(one), "returns element 0", Discharged, "", p.Pos(one.Pos()), nil, true)
		} else {
			r.Report("C13.R4", FuncName(one), "returns element 0", Violated, "One does not return the first collected element", p.Pos(one.Pos()), nil, true)
		}
		c := computeClosures(p)
		if c.own[one].Has(EErrNoObject) {
			r.Report("C13.R4", FuncName(one), "empty result reports ErrNoObjectFound", Discharged, "", p.Pos(one.Pos()), nil, true)
		} else {
			r.Report("C13.R4", FuncName(one), "empty result reports ErrNoObjectFound", Violated, "One cannot report the no-object error", p.Pos(one.Pos()), nil, true)
		}
	}

	// R5
	if ai := p.FuncByName("Schema.assignIndex"); ai != nil {
		okMap, okLen := false, false
		for _, lp := range naturalLoops(ai) {
			var srcIdx ssa.Value
			dstIdx := map[ssa.Value]bool{}
			for _, b := range lp.blocks {
				for _, in := range b.Instrs {
					switch v := in.(type) {
					case *ssa.IndexAddr:
						if sl, ok := v.X.Type().Underlying().(*types.Slice); ok && named(sl.Elem()) == a.IndexedField {
							srcIdx = v.Index
						}
					case *ssa.Call:
						if f := v.Call.StaticCallee(); f != nil && f.Name() == "Index" && f.Object() != nil && f.Object().Pkg() != nil && f.Object().Pkg().Path() == "reflect" && len(v.Call.Args) == 2 {
							dstIdx[v.Call.Args[1]] = true
						}
					}
				}
			}
			if srcIdx != nil && len(dstIdx) > 0 {
				okMap = true
				for d := range dstIdx {
					if d != srcIdx {
						okMap = false
					}
				}
			}
		}
		for _, b := range ai.Blocks {
			for _, in := range b.Instrs {
				if call, ok := in.(*ssa.Call); ok {
					if f := call.Call.StaticCallee(); f != nil && f.Name() == "MakeSlice" && len(call.Call.Args) == 3 {
						isLen := func(v ssa.Value) bool {
							c, ok := v.(*ssa.Call)
							if !ok {
								return false
							}
							bi, ok := c.Call.Value.(*ssa.Builtin)
							return ok && bi.Name() == "len"
						}
						if isLen(call.Call.Args[1]) && isLen(call.Call.Args[2]) {
							okLen = true
						}
					}
				}
			}
		}
		if okMap {
			r.Report("C13.R5", FuncName(ai), "target[i] is set from index[i]", Discharged, "", p.Pos(ai.Pos()), nil, true)
		} else {
			r.Report("C13.R5", FuncName(ai), "target[i] is set from index[i]", Violated, "the target element and the index element are not addressed by the same induction variable: values would be shifted, dropped or duplicated", p.Pos(ai.Pos()), nil, true)
		}
		if okLen {
			r.Report("C13.R5", FuncName(ai), "target has len(index) elements", Discharged, "", p.Pos(ai.Pos()), nil, true)
		} else {
			r.Report("C13.R5", FuncName(ai), "target has len(index) elements", Violated, "the target slice is not made with len(index) elements", p.Pos(ai.Pos()), nil, true)
		}
	}
}

func init() { register("C13", checkC13) }

// checkDiscovery: finite evaluation of the directory-entry splitter and of the temporary-name function.
func checkDiscovery(p *Prog, r *Result, rule, tmpRule string) {
	split := p.FuncByName("uuidExt")
	if split == nil {
		r.Report(rule, "uuidExt", "discovery", Undecided, "the function that splits a directory entry into uuid and extension was not found", "", nil, false)
		return
	}
	const U = "0f1e2d3c-4b5a-6978-8796-a5b4c3d2e1f0"
	pat := ""
	if init := p.SPkg.Func("init"); init != nil {
		for _, b := range init.Blocks {
			for _, in := range b.Instrs {
				if call, ok := in.(*ssa.Call); ok && classifyExternal(call.Call.StaticCallee()) == xRegexpCompile {
					if s, ok := constString(call.Call.Args[0]); ok {
						pat = s
					}
				}
			}
		}
	}
	re, err := regexp.Compile(pat)
	if err != nil || pat == "" {
		r.Report(rule, "uuid pattern", "discovery", Undecided, "uuid pattern not found or not compilable", "", nil, false)
		return
	}
	suffix := ""
	if gv, ok := p.SPkg.Members["compressedExtension"].(*ssa.Global); ok {
		suffix = globalStringInit(p, gv)
	}
	evalSplit := func(name string) (string, string) {
		env := &EvalEnv{P: p, CallHook: stdlibStringHook}
		res, out := env.Eval(split, []AV{avS(name)}, 0)
		r.Evaluations++
		if out != "return" || len(res) < 1 || res[0].K != avStr {
			return "", "finite evaluation failed on " + name + ": " + out + " " + env.Why
		}
		return res[0].S, ""
	}
	for _, ext := range []string{".json", ".obj", ".doc.json"} {
		for _, sfx := range []string{"", suffix} {
			name := U + ext + sfx
			got, why := evalSplit(name)
			construct := "entry <uuid>" + ext + sfx + " yields the uuid"
			switch {
			case why != "":
				r.Report(rule, FuncName(split), construct, Undecided, why, p.Pos(split.Pos()), nil, true)
			case got == U && re.MatchString(got):
				r.Report(rule, FuncName(split), construct, Discharged, "", p.Pos(split.Pos()), nil, true)
			default:
				r.Report(rule, FuncName(split), construct, Violated, fmt.Sprintf("the object file %q is split into uuid part %q: it is not recognised as an object file, so the integrity control reports every such object as missing and Repair would drop it", name, got), p.Pos(split.Pos()), nil, true)
			}
		}
	}
	// a schema may have an empty extension: its object files are bare uuids (plus the compressed suffix)
	for _, name := range []string{U} {
		got, why := evalSplit(name)
		construct := "entry <uuid> (empty extension) yields the uuid"
		switch {
		case why != "":
			r.Report(rule, FuncName(split), construct, Undecided, why, p.Pos(split.Pos()), nil, true)
		case got == U:
			r.Report(rule, FuncName(split), construct, Discharged, "", p.Pos(split.Pos()), nil, true)
		default:
			r.Report(rule, FuncName(split), construct, Violated, fmt.Sprintf("the object file %q of a collection whose extension is empty is split into uuid part %q", name, got), p.Pos(split.Pos()), nil, true)
		}
	}
	checkListingKeepsAllExtensions(p, r, rule)
	// entries that are not object files
	for _, name := range []string{"schema.json", "README", ".tmp-" + U + ".json"} {
		got, why := evalSplit(name)
		construct := "entry " + strings.Replace(name, U, "<uuid>", 1) + " is not taken for an object"
		switch {
		case why != "":
			r.Report(rule, FuncName(split), construct, Undecided, why, p.Pos(split.Pos()), nil, true)
		case !re.MatchString(got):
			r.Report(rule, FuncName(split), construct, Discharged, "", p.Pos(split.Pos()), nil, true)
		default:
			r.Report(rule, FuncName(split), construct, Violated, fmt.Sprintf("the entry %q is taken for the object %q", name, got), p.Pos(split.Pos()), nil, true)
		}
	}
	// the temporary name of the atomic writer
	if tf := p.FuncByName("tmpFilename"); tf != nil {
		for _, ext := range []string{".json", ".json" + suffix} {
			final := "/db/main.T/" + U + ext
			env := &EvalEnv{P: p, CallHook: stdlibStringHook}
			res, out := env.Eval(tf, []AV{avS(final)}, 0)
			r.Evaluations++
			construct := "temporary name of <uuid>" + ext + " is not taken for an object and lives in the same directory"
			if out != "return" || len(res) != 1 || res[0].K != avStr {
				r.Report(tmpRule, FuncName(tf), construct, Undecided, "finite evaluation failed: "+out+" "+env.Why, p.Pos(tf.Pos()), nil, true)
				continue
			}
			tmp := res[0].S
			got, why := evalSplit(filepath.Base(tmp))
			switch {
			case why != "":
				r.Report(tmpRule, FuncName(tf), construct, Undecided, why, p.Pos(tf.Pos()), nil, true)
			case filepath.Dir(tmp) != filepath.Dir(final):
				r.Report(tmpRule, FuncName(tf), construct, Violated, fmt.Sprintf("the temporary file %q is not in the directory of %q: the rename would not be atomic", tmp, final), p.Pos(tf.Pos()), nil, true)
			case tmp == final:
				r.Report(tmpRule, FuncName(tf), construct, Violated, "the temporary name equals the final name", p.Pos(tf.Pos()), nil, true)
			case re.MatchString(got):
				r.Report(tmpRule, FuncName(tf), construct, Violated, fmt.Sprintf("a leftover temporary file %q (crash before the rename) is taken for the stored object %q by the integrity control and by Repair, which then fails reading the missing object file", filepath.Base(tmp), got), p.Pos(tf.Pos()), nil, true)
			default:
				r.Report(tmpRule, FuncName(tf), construct, Discharged, filepath.Base(tmp), p.Pos(tf.Pos()), nil, true)
			}
		}
	}
}

// checkIteratorProgress: after the element read in next(), no return is reachable without a cursor step.
func checkIteratorProgress(p *Prog, c *Closures, r *Result, rule string, nx *ssa.Function, itn *types.Named, cursor *types.Var) {
	isStep := func(in ssa.Instruction) bool {
		switch v := in.(type) {
		case *ssa.Store:
			if _, f, _ := fieldOf(v.Addr); f == cursor {
				return true
			}
		case *ssa.Call:
			// a helper of the iterator that steps the cursor on all of its paths is not modelled: any helper that
			// stores the cursor counts only if it has a single block path (straight-line) or stores in every path
			if g := v.Call.StaticCallee(); g != nil && g != nx && recvIs(g, itn) && g.Blocks != nil {
				return stepsOnAllPaths(g, cursor)
			}
		}
		return false
	}
	n := 0
	for _, b := range nx.Blocks {
		for i, in := range b.Instrs {
			call, ok := in.(*ssa.Call)
			if !ok {
				continue
			}
			g := call.Call.StaticCallee()
			if g == nil || !inSod(p, g) || !(c.Of(g).Has(EFsRObj) || c.Of(g).Has(EGetCache) || c.Of(g).Has(EGetUnk)) {
				continue
			}
			n++
			// search a return reachable without a step
			var bad *ssa.Return
			seen := map[*ssa.BasicBlock]bool{}
			var walk func(blk *ssa.BasicBlock, from int)
			walk = func(blk *ssa.BasicBlock, from int) {
				if bad != nil {
					return
				}
				for _, x := range blk.Instrs[from:] {
					if isStep(x) {
						return
					}
					if ret, ok := x.(*ssa.Return); ok {
						bad = ret
						return
					}
				}
				for _, sb := range blk.Succs {
					if !seen[sb] {
						seen[sb] = true
						walk(sb, 0)
					}
				}
			}
			walk(b, i+1)
			if bad != nil {
				r.Report(rule, FuncName(nx), "cursor stepped on every path after the element read", Violated, "next() can return after reading the current element without stepping the cursor (e.g. on a read error): a caller that continues after the error gets the same element forever and never reaches the end of iteration", p.Pos(bad.Pos()), nil, true)
			} else {
				r.Report(rule, FuncName(nx), "cursor stepped on every path after the element read", Discharged, "", p.Pos(in.Pos()), nil, true)
			}
		}
	}
	if n == 0 {
		r.Report(rule, FuncName(nx), "cursor stepped on every path after the element read", Undecided, "next() does not read an element through a recognisable lookup", p.Pos(nx.Pos()), nil, true)
	}
}

// stepsOnAllPaths: every path from the entry of g to a return contains a store to the cursor field.
func stepsOnAllPaths(g *ssa.Function, cursor *types.Var) bool {
	seen := map[*ssa.BasicBlock]bool{}
	ok := true
	var walk func(b *ssa.BasicBlock)
	walk = func(b *ssa.BasicBlock) {
		if !ok || seen[b] {
			return
		}
		seen[b] = true
		for _, in := range b.Instrs {
			if st, isSt := in.(*ssa.Store); isSt {
				if _, f, _ := fieldOf(st.Addr); f == cursor {
					return
				}
			}
			if _, isRet := in.(*ssa.Return); isRet {
				ok = false
				return
			}
		}
		for _, sb := range b.Succs {
			walk(sb)
		}
	}
	walk(g.Blocks[0])
	return ok
}

// checkSortedSliceWriters: who writes fieldIndex.Index, and how.
func checkSortedSliceWriters(p *Prog, r *Result, rule string) {
	a := p.A
	fromSelf := func(v ssa.Value) bool { // a sub-slice of (a load of) the sorted slice
		for {
			switch x := v.(type) {
			case *ssa.Slice:
				v = x.X
				continue
			case *ssa.UnOp:
				_, f, _ := loadedField(x)
				return f == a.FIIndex
			}
			return false
		}
	}
	isBisect := func(g *ssa.Function) bool {
		if g == nil || !recvIs(g, a.FieldIndex) || g.Signature.Results().Len() != 1 {
			return false
		}
		if b, ok := g.Signature.Results().At(0).Type().Underlying().(*types.Basic); !ok || b.Kind() != types.Int {
			return false
		}
		for _, h := range calleesWithin(p, g, 3) {
			if recvIs(h, a.IndexedField) && h.Signature.Params().Len() == 1 && named(h.Signature.Params().At(0).Type()) == a.IndexedField && h.Signature.Results().Len() == 1 {
				if b, ok := h.Signature.Results().At(0).Type().Underlying().(*types.Basic); ok && b.Kind() == types.Bool {
					return true
				}
			}
		}
		return false
	}
	for _, fn := range p.Funcs {
		if !inSod(p, fn) {
			continue
		}
		bis := false
		for _, b := range fn.Blocks {
			for _, in := range b.Instrs {
				if c, ok := in.(ssa.CallInstruction); ok && isBisect(c.Common().StaticCallee()) {
					bis = true
				}
			}
		}
		decoder := decoderOf(fn) != nil && recvIs(decoderOf(fn), a.FieldIndex)
		report := func(in ssa.Instruction, how string, ok bool) {
			construct := "write of the sorted slice: " + how
			if ok {
				r.Report(rule, FuncName(fn), construct, Discharged, "", p.Pos(in.Pos()), nil, true)
			} else {
				r.Report(rule, FuncName(fn), construct, Violated, "the sorted slice of a field index is written outside the sorted insertion, the compaction, the reset and the decoder: its order (which bisection, result order, Reverse, Limit and One rely on) is no longer guaranteed by construction", p.Pos(in.Pos()), nil, true)
			}
		}
		for _, b := range fn.Blocks {
			for _, in := range b.Instrs {
				switch v := in.(type) {
				case *ssa.Store:
					if _, f, _ := fieldOf(v.Addr); f == a.FIIndex {
						switch val := v.Val.(type) {
						case *ssa.MakeSlice:
							report(in, "reset", true)
						case *ssa.Slice:
							// make([]T, 0) with constant size is `new [0]T` + slice
							if al, ok := val.X.(*ssa.Alloc); ok {
								if arr, ok := al.Type().(*types.Pointer).Elem().Underlying().(*types.Array); ok && arr.Len() == 0 {
									report(in, "reset", true)
									break
								}
							}
							report(in, "field store", bis || decoder)
						case *ssa.Const:
							report(in, "reset", val.IsNil())
						case *ssa.Call:
							if bi, ok := val.Call.Value.(*ssa.Builtin); ok && bi.Name() == "append" && len(val.Call.Args) == 2 && fromSelf(val.Call.Args[0]) && fromSelf(val.Call.Args[1]) {
								report(in, "compaction", true)
							} else {
								report(in, "field store", bis || decoder)
							}
						default:
							report(in, "field store", bis || decoder)
						}
					} else if ia, ok := v.Addr.(*ssa.IndexAddr); ok && fromSelf(ia.X) {
						report(in, "element store", bis || decoder)
					}
				case *ssa.Call:
					if bi, ok := v.Call.Value.(*ssa.Builtin); ok && bi.Name() == "copy" && len(v.Call.Args) == 2 && fromSelf(v.Call.Args[0]) {
						report(in, "copy into it", bis || decoder)
					}
				}
			}
		}
	}
}

// operatorArms: operator literal -> field-index range function called by the indexed search dispatch.
func operatorArms(p *Prog) map[string]*ssa.Function {
	a := p.A
	out := map[string]*ssa.Function{}
	idx := p.FuncByName(a.ObjIndex.Obj().Name() + ".search")
	if idx == nil {
		return out
	}
	owner, _ := switchOwner(idx, 2)
	if owner == nil {
		return out
	}
	for _, b := range owner.Blocks {
		ifi, ok := b.Instrs[len(b.Instrs)-1].(*ssa.If)
		if !ok {
			continue
		}
		bo, ok := ifi.Cond.(*ssa.BinOp)
		if !ok || bo.Op != token.EQL {
			continue
		}
		lit, ok := constString(bo.Y)
		if !ok {
			continue
		}
		for _, in := range b.Succs[0].Instrs {
			if call, ok := in.(*ssa.Call); ok {
				if f := call.Call.StaticCallee(); f != nil && f.Signature.Recv() != nil && named(f.Signature.Recv().Type()) == a.FieldIndex {
					out[lit] = f
				}
			}
		}
	}
	return out
}

// checkNotEqualOrder: head segment (index[:i]) is placed before the tail segment (index[j:]).
func checkNotEqualOrder(p *Prog, r *Result, rule string) {
	a := p.A
	f := operatorArms(p)["!="]
	if f == nil {
		r.Report(rule, "-", "range function of '!='", Undecided, "the indexed dispatch has no arm for '!='", "", nil, false)
		return
	}
	kindOf := func(v ssa.Value) string {
		sl, ok := v.(*ssa.Slice)
		if !ok {
			return ""
		}
		if _, fld, _ := loadedField(sl.X); fld != a.FIIndex {
			return ""
		}
		lowZero := sl.Low == nil
		if c, ok := sl.Low.(*ssa.Const); ok && c.Value != nil && c.Value.String() == "0" {
			lowZero = true
		}
		switch {
		case lowZero && sl.High != nil:
			return "head"
		case !lowZero && sl.High == nil:
			return "tail"
		}
		return ""
	}
	type use struct {
		kind string
		at   ssa.Instruction
		pos  int
	}
	var uses []use
	n := 0
	for _, b := range f.Blocks {
		for _, in := range b.Instrs {
			n++
			call, ok := in.(*ssa.Call)
			if !ok {
				continue
			}
			bi, ok := call.Call.Value.(*ssa.Builtin)
			if !ok || (bi.Name() != "copy" && bi.Name() != "append") || len(call.Call.Args) < 2 {
				continue
			}
			if k := kindOf(call.Call.Args[1]); k != "" {
				uses = append(uses, use{k, in, n})
			}
		}
	}
	var head, tail *use
	for i := range uses {
		if uses[i].kind == "head" && head == nil {
			head = &uses[i]
		}
		if uses[i].kind == "tail" && tail == nil {
			tail = &uses[i]
		}
	}
	switch {
	case head == nil || tail == nil:
		r.Report(rule, FuncName(f), "head segment placed before tail segment", Undecided, "the '!=' range function does not build its result from a slice of the index from its start and a slice up to its end (copy/append): its result order cannot be decided by this rule", p.Pos(f.Pos()), nil, true)
	case head.at.Block() == tail.at.Block() && head.pos < tail.pos, head.at.Block() != tail.at.Block() && head.at.Block().Dominates(tail.at.Block()):
		r.Report(rule, FuncName(f), "head segment placed before tail segment", Discharged, "", p.Pos(head.at.Pos()), nil, true)
	default:
		r.Report(rule, FuncName(f), "head segment placed before tail segment", Violated, "the '!=' range function appends the entries behind the equal range (smaller values) before the ones in front of it (greater values): the matches are right but their order is not the index order, so Collect / Reverse / Limit / One on a search ending with '!=' return the wrong order or the wrong elements", p.Pos(tail.at.Pos()), nil, true)
	}
}

// returnsLenOfList: the method returns len() of a slice field of its receiver.
func returnsLenOfList(g *ssa.Function) bool {
	for _, b := range g.Blocks {
		for _, in := range b.Instrs {
			ret, ok := in.(*ssa.Return)
			if !ok || len(ret.Results) != 1 {
				continue
			}
			if call, ok := ret.Results[0].(*ssa.Call); ok {
				if bi, ok := call.Call.Value.(*ssa.Builtin); ok && bi.Name() == "len" {
					if n, _, _ := loadedField(call.Call.Args[0]); n != nil {
						return true
					}
				}
			}
		}
	}
	return false
}
