package main

import (
	"fmt"
	"go/types"
	"strings"

	"golang.org/x/tools/go/ssa"
)

// effListener is a generic listener driven by closures.
type effListener struct {
	p        *Prog
	r        *Result
	root     *ssa.Function
	val      Valuation
	onEvent  func(l *effListener, x *Explorer, st *State, ev *Event)
	onReturn func(l *effListener, x *Explorer, st *State, ret *ssa.Return, res []Fact)
	onEnd    func(l *effListener, x *Explorer, st *State, reason string)
}

func (l *effListener) Event(x *Explorer, st *State, ev *Event) {
	if l.onEvent != nil {
		l.onEvent(l, x, st, ev)
	}
}
func (l *effListener) Return(x *Explorer, st *State, ret *ssa.Return, res []Fact) {
	if l.onReturn != nil {
		l.onReturn(l, x, st, ret, res)
	}
}
func (l *effListener) End(x *Explorer, st *State, reason string) {
	if l.onEnd != nil {
		l.onEnd(l, x, st, reason)
	}
}

func (l *effListener) ok(rule, fn, construct, where string) {
	reportMu.Lock()
	defer reportMu.Unlock()
	l.r.Report(rule, fn, construct, Discharged, "", where, nil, true)
}

func (l *effListener) bad(rule, fn, construct, detail, where string, x *Explorer, st *State, at ssa.Instruction) {
	reportMu.Lock()
	defer reportMu.Unlock()
	tr := []string{"entry " + FuncName(l.root) + " [" + l.val.String() + "]"}
	if at != nil {
		tr = append(tr, x.Stack(st, at.Pos()))
	}
	l.r.Report(rule, fn, construct, Violated, detail, where, tr, true)
}

func (l *effListener) note(rule, fn, construct, detail, where string) {
	reportMu.Lock()
	defer reportMu.Unlock()
	l.r.Report(rule, fn, construct, Discharged, detail, where, nil, true)
}

// errResult returns the nil-ness of the error result of a root return (triUnk if none/unknown).
func errResult(root *ssa.Function, res []Fact) (tri, bool) {
	sig := root.Signature.Results()
	for i := sig.Len() - 1; i >= 0; i-- {
		if isErrorType(sig.At(i).Type()) && i < len(res) {
			return res[i].Nil, true
		}
	}
	return triUnk, false
}

var configVals = []Valuation{
	{Cache: triNo, Async: triNo},
	{Cache: triYes, Async: triNo},
	{Cache: triNo, Async: triYes},
	{Cache: triYes, Async: triYes},
}

func rootsByName(p *Prog, r *Result, names ...string) []*ssa.Function {
	var out []*ssa.Function
	for _, n := range names {
		f := p.FuncByName(n)
		if f == nil {
			r.Report("ANCHOR", "-", "entry "+n, Undecided, "entry point "+n+" not found", "", nil, false)
			continue
		}
		out = append(out, f)
	}
	return out
}

func jobsFor(roots []*ssa.Function, vals []Valuation) []exploreJob {
	var jobs []exploreJob
	for _, f := range roots {
		for _, v := range vals {
			jobs = append(jobs, exploreJob{f, v})
		}
	}
	return jobs
}

var (
	// observable mutations of database state
	mutM = effs(EIdxWLive, EIdxWUnk, EPutCache, EPutPend, EPutUnk, EFsWObj, EFsWSchema, EFsRmObj, EFsRmSchema, EFsRmTree, ECfgW)
	// insertion-class mutations
	mutIns = effs(EIdxWLive, EIdxWUnk, EPutCache, EPutPend, EPutUnk, EFsWObj)
	// reject-class error sources (user-caused; the call must leave no trace)
	rejectSrc = effs(EHookV, EErrUnique, EErrWrongType, EErrInvalid, EErrStructure, EErrFieldDesc, EErrExtension, EErrKeyType, EErrUnkField, EJsonEncObj, EJsonDec)
	okBits    = effs(EOkValid, EOkUniq, EOkAccept, EOkSchema, EOkObjRead, EOkCompat, EOkStruct, EOkSer, EOkUniqLive, EOkUniqTemp, EOkAcceptTemp)
)

// ---- C06 ------------------------------------------------------------------------------

func checkC06(p *Prog, r *Result, tier string) {
	r.Rule("C06.R1", "NEVER-AFTER: on every path of InsertOrUpdate / InsertOrUpdateMany, under every cache/async valuation, no reject-class error source (Validate, uniqueness, wrong type, invalid, structure/descriptor/extension, unknown key type/field, serialisation of the object, decoding) is reached after a mutation of observable state (live index, cache, pending store, object or schema file, settings)", 12)
	r.Rule("C06.R2", "MUST-BEFORE: every mutation of observable state on these entries is preceded on its path by a successful schema acquisition, and insertion-class mutations also by a successful Validate and a successful uniqueness check", 6)
	r.NotDecided = []string{"the storage-fault half (Control reports, Repair restores after an injected I/O error) beyond the structure checked under C11", "that the state is value-identical to the state before the call (only: nothing was mutated)"}
	r.Assumptions = []string{"schema-table stability: after a successful schema acquisition in an entry point, later table lookups for the same object type hit (the handle's write lock is held and nothing deletes table entries)", "vetted: ERR(UnkownField)/ERR(UnknownKeyType) sources reached after a successful uniqueness check repeat a conversion that already succeeded on the same object (discharged only if ok(UNIQ.check) is on the path)"}
	c := computeClosures(p)
	roots := rootsByName(p, r, "DB.InsertOrUpdate", "DB.InsertOrUpdateMany")
	for _, f := range roots {
		r.Entries = append(r.Entries, FuncName(f))
	}
	mask := mutM.Union(okBits).Union(effs(EHookV, EHookT, ECanon))
	exploreAll(p, c, jobsFor(roots, configVals), mask, r, func(j exploreJob) Listener {
		return &effListener{p: p, r: r, root: j.root, val: j.val, onEvent: c06Event}
	}, nil)
	r.Rule("C06.R4", "rollback completeness: on every path of an insertion entry that un-indexes the object again (error recovery), the cache and pending entries are dropped too when caching is on, so that a failed call cannot leave an object that only the cache knows", 0)
	rb := effs(ECallUnindex, ECallDelCache, ECallDelPend, EPutCache, EPutPend)
	exploreAll(p, c, jobsFor(roots, configVals), rb, r, func(j exploreJob) Listener {
		return &effListener{p: p, r: r, root: j.root, val: j.val, onReturn: func(l *effListener, x *Explorer, st *State, ret *ssa.Return, res []Fact) {
			if !st.may.Has(ECallUnindex) {
				return
			}
			fn := FuncName(l.root)
			var miss []string
			if st.may.Has(EPutCache) && !st.must.Has(ECallDelCache) {
				miss = append(miss, "CALL.del(cache)")
			}
			if st.may.Has(EPutPend) && !st.must.Has(ECallDelPend) {
				miss = append(miss, "CALL.del(pending)")
			}
			if len(miss) == 0 {
				l.ok("C06.R4", fn, "un-indexing rollback also drops cache/pending", l.p.Pos(ret.Pos()))
			} else {
				l.bad("C06.R4", fn, "un-indexing rollback also drops cache/pending", "the entry un-indexes the object on an error path but leaves it in the cache/pending store (missing "+strings.Join(miss, ", ")+"): Get would still return the object of the failed call while index and disk agree, so Control stays silent", l.p.Pos(ret.Pos()), x, st, ret)
			}
		}}
	}, nil)
	r.Rule("C06.R3", "ITER (premise of the vetted batch-protocol exemptions): every iteration of the batch entry's validating loop assigns the element its identifier (the scratch index tells batch members apart by UUID), performs a successful Validate, a successful serialisation check, a successful insertion into the scratch index and a successful uniqueness check against the live index", 1)
	checkValidateLoops(p, c, r, "C06.R3", effs(ECallInit, EOkValid, EOkSer, EOkUniqLive, EOkAcceptTemp))
}

func c06Event(l *effListener, x *Explorer, st *State, ev *Event) {
	if ev.Kind != EvEffect {
		return
	}
	fn := FuncName(st.top().fn)
	where := l.p.Pos(ev.Instr.Pos())
	if rejectSrc.Has(ev.Eff) {
		construct := "source " + ev.Eff.String()
		prior := st.may.Inter(mutM)
		if ev.Eff == EJsonEncObj || ev.Eff == EHookV {
			// the event itself was just added; it is not a mutation
		}
		switch {
		case prior.Empty():
			l.ok("C06.R1", fn, construct, where)
		case ev.Eff == EErrUnique && st.must.Has(EOkUniqLive) && st.must.Has(EOkAcceptTemp):
			l.note("C06.R1", fn, construct, "vetted infeasible (batch protocol): this element already passed a uniqueness check against the live index and an insertion into the per-batch scratch index (both on this path; C06.R3 shows every element does); a conflict with the pre-state or with an earlier element of the batch would have been reported there", where)
		case ev.Eff == EJsonEncObj && st.must.Has(EOkSer):
			l.note("C06.R1", fn, construct, "vetted infeasible: the same object was already serialised successfully on this path before any mutation (ok(SERIALISE))", where)
		case (ev.Eff == EErrUnkField || ev.Eff == EErrKeyType) && st.must.Has(EOkUniq):
			l.note("C06.R1", fn, construct, "vetted infeasible: the same field resolution / key conversion already succeeded in the uniqueness check that dominates this point (ok(UNIQ.check) is on the path)", where)
		default:
			l.bad("C06.R1", fn, construct, fmt.Sprintf("reject-class error source %s can fire after observable state was already mutated on this path: %s — the call would return an error and leave a trace", ev.Eff, prior), where, x, st, ev.Instr)
		}
	}
	if mutM.Has(ev.Eff) {
		construct := "mutation " + ev.Eff.String()
		var missing []string
		if !st.must.Has(EOkSchema) {
			missing = append(missing, "ok(SCHEMA.get)")
		}
		if mutIns.Has(ev.Eff) {
			if !st.must.Has(EOkValid) {
				missing = append(missing, "ok(Validate)")
			}
			if !st.must.Has(EOkUniq) {
				missing = append(missing, "ok(UNIQ.check)")
			}
		}
		if len(missing) == 0 {
			l.ok("C06.R2", fn, construct, where)
		} else {
			l.bad("C06.R2", fn, construct, fmt.Sprintf("mutation %s is not preceded on this path by %s", ev.Eff, strings.Join(missing, ", ")), where, x, st, ev.Instr)
		}
	}
}

func init() { register("C06", checkC06) }

// ---- C15 ------------------------------------------------------------------------------

func checkC15(p *Prog, r *Result, tier string) {
	r.Rule("C15.R1", "MUST-BEFORE on every path of every insertion entry and valuation: Transform precedes the schema case transforms, both precede Validate, and a successful Validate precedes every insertion-class mutation (live index, cache, pending store, object file)", 8)
	r.Rule("C15.R2", "who-may-reach: the exported entry points that can reach an accepting index insertion are exactly InsertOrUpdate, InsertOrUpdateMany, InsertOrUpdateBulk (hook-guarded) and Repair (re-indexes what is already stored; enumerated exception)", 3)
	r.Rule("C15.R3", "every path that returns after a failed Validate carries the ErrInvalidObject sentinel", 2)
	r.Rule("C15.R4", "no deep clone of the object is taken before Transform and the case transforms ran (what is cached is the transformed value)", 1)
	r.Rule("C15.R5", "ITER: in the batch entry every iteration of the validating loop performs Transform, case transforms, a successful Validate and a successful uniqueness check for its element before the loop can continue", 1)
	r.NotDecided = []string{"nothing structural; value-level: that Transform/Validate implementations are deterministic"}
	c := computeClosures(p)
	roots := rootsByName(p, r, "DB.InsertOrUpdate", "DB.InsertOrUpdateMany")
	for _, f := range roots {
		r.Entries = append(r.Entries, FuncName(f))
	}
	mask := mutIns.Union(okBits).Union(effs(EHookV, EHookT, ECanon, EErrInvalid, EClone))
	exploreAll(p, c, jobsFor(roots, configVals), mask, r, func(j exploreJob) Listener {
		return &effListener{p: p, r: r, root: j.root, val: j.val, onEvent: c15Event, onReturn: c15Return}
	}, nil)
	// R2: who may reach ACCEPT
	allowed := map[string]string{"(*DB).InsertOrUpdate": "hooks", "(*DB).InsertOrUpdateMany": "hooks", "(*DB).InsertOrUpdateBulk": "via InsertOrUpdateMany", "(*DB).Repair": "enumerated exception: re-indexes stored objects"}
	for _, f := range p.Roots() {
		cl := c.Of(f)
		if cl.Has(EErrUnique) && cl.Has(EIdxWLive) {
			name := FuncName(f)
			if why, ok := allowed[name]; ok {
				r.Report("C15.R2", name, "reaches ACCEPT", Discharged, why, p.Pos(f.Pos()), nil, true)
			} else {
				r.Report("C15.R2", name, "reaches ACCEPT", Violated, "exported entry point can insert into the live index but is not one of the hook-guarded insertion entries", p.Pos(f.Pos()), nil, true)
			}
		}
	}
	// bulk must go through the batch entry only
	if bulk := p.FuncByName("DB.InsertOrUpdateBulk"); bulk != nil {
		okb := true
		for _, b := range bulk.Blocks {
			for _, in := range b.Instrs {
				if ci, ok := in.(ssa.CallInstruction); ok {
					if f := ci.Common().StaticCallee(); f != nil && inSod(p, f) {
						cl := c.Of(f)
						if cl.Has(EIdxWLive) && !cl.Has(EHookV) {
							okb = false
							r.Report("C15.R2", FuncName(bulk), "call "+FuncName(f), Violated, "bulk entry calls an index-mutating function that does not run the hooks", p.Pos(in.Pos()), nil, true)
						}
					}
				}
			}
		}
		if okb {
			r.Report("C15.R2", FuncName(bulk), "calls", Discharged, "every index-mutating callee of the bulk entry runs the hooks", p.Pos(bulk.Pos()), nil, true)
		}
	}
	// R5: per-iteration
	checkValidateLoops(p, c, r, "C15.R5", effs(EHookT, ECanon, EOkValid, EOkUniq))
}

func c15Event(l *effListener, x *Explorer, st *State, ev *Event) {
	if ev.Kind != EvEffect {
		return
	}
	fn := FuncName(st.top().fn)
	where := l.p.Pos(ev.Instr.Pos())
	switch {
	case ev.Eff == ECanon:
		if st.must.Has(EHookT) {
			l.ok("C15.R1", fn, "order Transform<CANON", where)
		} else {
			l.bad("C15.R1", fn, "order Transform<CANON", "schema case transforms applied before (or without) the object's Transform hook", where, x, st, ev.Instr)
		}
	case ev.Eff == EHookV:
		var missing []string
		if !st.must.Has(EHookT) {
			missing = append(missing, "HOOK.Transform")
		}
		if !st.must.Has(ECanon) {
			missing = append(missing, "CANON")
		}
		if len(missing) == 0 {
			l.ok("C15.R1", fn, "order CANON<Validate", where)
		} else {
			l.bad("C15.R1", fn, "order CANON<Validate", "Validate consulted before "+strings.Join(missing, ", "), where, x, st, ev.Instr)
		}
	case mutIns.Has(ev.Eff):
		construct := "mutation " + ev.Eff.String()
		var missing []string
		for _, e := range []Eff{EHookT, ECanon, EOkValid} {
			if !st.must.Has(e) {
				missing = append(missing, e.String())
			}
		}
		if len(missing) == 0 {
			l.ok("C15.R1", fn, construct, where)
		} else {
			l.bad("C15.R1", fn, construct, fmt.Sprintf("insertion-class mutation %s not preceded by %s", ev.Eff, strings.Join(missing, ", ")), where, x, st, ev.Instr)
		}
	case ev.Eff == EClone:
		if ev.Tags&TParamObj == 0 {
			return // a clone of something else than the object being inserted (e.g. a cache read)
		}
		if st.must.Has(EHookT) && st.must.Has(ECanon) {
			l.ok("C15.R4", fn, "clone", where)
		} else {
			l.bad("C15.R4", fn, "clone", "object deep-cloned (for the cache / pending store) before Transform and the case transforms ran: the stored copy would be the untransformed value", where, x, st, ev.Instr)
		}
	}
}

func c15Return(l *effListener, x *Explorer, st *State, ret *ssa.Return, res []Fact) {
	// R3 for the single entry: Validate ran, was not proven ok, nothing else failed first
	if st.must.Has(EHookV) && !st.must.Has(EOkValid) {
		fn := FuncName(l.root)
		if st.must.Has(EErrInvalid) {
			l.ok("C15.R3", fn, "failed Validate return", l.p.Pos(ret.Pos()))
		} else {
			l.bad("C15.R3", fn, "failed Validate return", "a path returns after Validate failed (or with its result untested) without wrapping ErrInvalidObject", l.p.Pos(ret.Pos()), x, st, ret)
		}
	}
}

func init() { register("C15", checkC15) }

// checkValidateLoops explores, in loop mode, each loop of the batch entry (or of a helper it calls) that runs Validate.
func checkValidateLoops(p *Prog, c *Closures, r *Result, rule string, need EffSet) {
	many := p.FuncByName("DB.InsertOrUpdateMany")
	if many == nil {
		r.Report(rule, "DB.InsertOrUpdateMany", "loop", Undecided, "batch entry not found", "", nil, false)
		return
	}
	fn := FuncName(many)
	found := exploreLoops(p, c, r, many, func(lp natLoop, cl EffSet) bool { return cl.Has(EHookV) }, configVals, need.Union(effs(EHookV, EErrInvalid, EOkValid)).Union(okBits),
		func(lp natLoop, idx int, val Valuation) *effListener {
			construct := fmt.Sprintf("validating loop #%d", idx)
			l := &effListener{p: p, r: r, root: many, val: val}
			l.onEnd = func(l *effListener, x *Explorer, st *State, reason string) {
				if reason != "backedge" {
					return
				}
				missing := need.Minus(st.iter)
				if missing.Empty() {
					l.ok(rule, fn, construct, p.Pos(lp.header.Instrs[0].Pos()))
				} else {
					l.bad(rule, fn, construct, "an iteration of the validating loop can continue to the next element without "+missing.String(), p.Pos(lp.header.Instrs[0].Pos()), x, st, nil)
				}
			}
			l.onReturn = func(l *effListener, x *Explorer, st *State, ret *ssa.Return, res []Fact) {
				// leaving the entry from inside the loop after a failed Validate: must carry ErrInvalidObject
				if st.trackIter && st.iter.Has(EHookV) && !st.iter.Has(EOkValid) {
					if st.iter.Has(EErrInvalid) {
						l.ok("C15.R3", fn, "failed Validate return (batch)", p.Pos(ret.Pos()))
					} else {
						l.bad("C15.R3", fn, "failed Validate return (batch)", "the batch entry returns after a failed Validate without wrapping ErrInvalidObject", p.Pos(ret.Pos()), x, st, ret)
					}
				}
			}
			return l
		}, nil)
	if found == 0 {
		r.Report(rule, fn, "validating loop", Violated, "the batch entry has no loop that runs Validate per element", p.Pos(many.Pos()), nil, true)
	}
}

type natLoop struct {
	header *ssa.BasicBlock
	blocks []*ssa.BasicBlock
}

// naturalLoops finds natural loops via back edges (edge to a dominator).
func naturalLoops(fn *ssa.Function) []natLoop {
	var loops []natLoop
	byHeader := map[*ssa.BasicBlock]map[*ssa.BasicBlock]bool{}
	for _, b := range fn.Blocks {
		for _, s := range b.Succs {
			if s.Dominates(b) {
				// back edge b -> s
				set := byHeader[s]
				if set == nil {
					set = map[*ssa.BasicBlock]bool{s: true}
					byHeader[s] = set
				}
				var stack []*ssa.BasicBlock
				if !set[b] {
					set[b] = true
					stack = append(stack, b)
				}
				for len(stack) > 0 {
					n := stack[len(stack)-1]
					stack = stack[:len(stack)-1]
					for _, pr := range n.Preds {
						if !set[pr] {
							set[pr] = true
							stack = append(stack, pr)
						}
					}
				}
			}
		}
	}
	for _, b := range fn.Blocks {
		if set, ok := byHeader[b]; ok {
			lp := natLoop{header: b}
			for _, bb := range fn.Blocks {
				if set[bb] {
					lp.blocks = append(lp.blocks, bb)
				}
			}
			loops = append(loops, lp)
		}
	}
	return loops
}

var _ = types.Universe
