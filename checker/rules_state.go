package main

import (
	"fmt"
	"go/token"
	"go/types"
	"sort"
	"strings"

	"golang.org/x/tools/go/ssa"
)

// calleesWithin lists fn and the sod functions it can call statically, breadth first, up to the given depth.
func calleesWithin(p *Prog, fn *ssa.Function, depth int) []*ssa.Function {
	out := []*ssa.Function{fn}
	seen := map[*ssa.Function]bool{fn: true}
	frontier := []*ssa.Function{fn}
	for d := 0; d < depth; d++ {
		var next []*ssa.Function
		for _, f := range frontier {
			for _, b := range f.Blocks {
				for _, in := range b.Instrs {
					if _, isGo := in.(*ssa.Go); isGo {
						continue
					}
					if ci, ok := in.(ssa.CallInstruction); ok {
						g := ci.Common().StaticCallee()
						if g != nil && g.Blocks != nil && inSod(p, g) && !seen[g] {
							seen[g] = true
							out = append(out, g)
							next = append(next, g)
						}
					}
				}
			}
		}
		frontier = next
	}
	return out
}

type deepLoop struct {
	fn *ssa.Function
	lp natLoop
	cl EffSet // effects of the loop body (own instructions and callees' closures)
}

// deepLoops finds the natural loops of fn and of the helpers it calls (a loop extracted into a private helper is
// still "a loop of fn" for the rules).
func deepLoops(p *Prog, c *Closures, fn *ssa.Function, depth int) []deepLoop {
	var out []deepLoop
	for _, f := range calleesWithin(p, fn, depth) {
		for _, lp := range naturalLoops(f) {
			var cl EffSet
			for _, b := range lp.blocks {
				for _, in := range b.Instrs {
					cl = cl.Union(staticEffects(p, in))
					if ci, ok := in.(ssa.CallInstruction); ok {
						if g := ci.Common().StaticCallee(); g != nil && inSod(p, g) {
							cl = cl.Union(c.Of(g))
						}
					}
				}
			}
			out = append(out, deepLoop{f, lp, cl})
		}
	}
	return out
}

// exploreLoops runs loop-mode explorations of root over every loop (of root or of a helper within two calls) selected by sel.
func exploreLoops(p *Prog, c *Closures, r *Result, fn *ssa.Function, sel func(lp natLoop, closure EffSet) bool, vals []Valuation, mask EffSet,
	mk func(lp natLoop, idx int, val Valuation) *effListener, cfg func(x *Explorer)) int {
	found := 0
	// loops of fn itself first; only when it has none that qualifies (the loop was extracted into a helper) are the
	// helpers one, then two calls away searched
	var cands []deepLoop
	for depth := 0; depth <= 2 && len(cands) == 0; depth++ {
		for _, dl := range deepLoops(p, c, fn, depth) {
			if sel(dl.lp, dl.cl) {
				cands = append(cands, dl)
			}
		}
	}
	// keep the outermost candidates only: a loop nested in, or living in a function called from the body of,
	// another candidate is part of that candidate's iteration, not a loop of its own
	inner := func(x, y deepLoop) bool {
		if x.fn == y.fn && x.lp.header != y.lp.header {
			for _, b := range y.lp.blocks {
				if b == x.lp.header {
					return true
				}
			}
		}
		for _, b := range y.lp.blocks {
			for _, in := range b.Instrs {
				if ci, ok := in.(ssa.CallInstruction); ok {
					if g := ci.Common().StaticCallee(); g != nil && g.Blocks != nil && inSod(p, g) {
						for _, h := range calleesWithin(p, g, 3) {
							if h == x.fn {
								return true
							}
						}
					}
				}
			}
		}
		return false
	}
	for i, dl := range cands {
		nested := false
		for j, other := range cands {
			if i != j && inner(dl, other) {
				nested = true
			}
		}
		if nested {
			continue
		}
		lp := dl.lp
		found++
		for _, val := range vals {
			l := mk(lp, found, val)
			x := NewExplorer(p, c, fn, val, l)
			x.LoopFn, x.LoopHeader = dl.fn, lp.header
			x.LoopBlocks = map[*ssa.BasicBlock]bool{}
			for _, b := range lp.blocks {
				x.LoopBlocks[b] = true
			}
			x.Mask = mask
			if cfg != nil {
				cfg(x)
			}
			x.Run()
			for _, u := range x.Undecided {
				r.Report("ENGINE", FuncName(fn), u, Undecided, u, "", nil, false)
			}
			r.Extra["states_explored"] = toInt(r.Extra["states_explored"]) + x.States
			r.Extra["paths_explored"] = toInt(r.Extra["paths_explored"]) + x.Paths
		}
	}
	return found
}

func needMissing(must EffSet, need ...Eff) string {
	var m []string
	for _, e := range need {
		if !must.Has(e) {
			m = append(m, e.String())
		}
	}
	return strings.Join(m, ", ")
}

// ---- C01 ------------------------------------------------------------------------------

func checkC01(p *Prog, r *Result, tier string) {
	r.Rule("C01.R1", "AT-RETURN(nil): every successful return of InsertOrUpdate / InsertOrUpdateMany, under each cache/async valuation, has performed: accepted insertion into the live index; cache put if cache or async; pending put if async; object file write and a schema commit after the last index change if not async. ITER: every iteration of the batch insert loop that continues performed the same", 10)
	r.Rule("C01.R2", "AT-RETURN(nil) / ITER: Delete and every iteration of DeleteObjects (also reached from DeleteAll and Search.Delete) un-index the object, drop its cache and pending entries when caching is on, remove the file when it exists, and commit afterwards", 8)
	r.Rule("C01.R3", "MUST-BEFORE: every cache put on any API path is preceded by a successful object read or an accepted insertion of that call (the read path caches only what it read)", 1)
	r.Rule("C01.R4", "error discipline: no error returned by a storage, codec or package call is dropped (unused result, defer/go of an error-returning call); enumerated exceptions carry a reason", 40)
	r.Rule("C01.R5", "one membership source, one writer: the uuid<->id maps and the id counter are written only by methods of the object index type, and every function that writes one map writes the other", 3)
	r.Rule("C01.R8", "the bulk delete goes through the whole iterator: the loop that drains the iterator and deletes what it yields compares the iterator's error with the end-of-iteration sentinel inside the loop (== / != / errors.Is) whenever a nil test of that error can leave the loop, so that an object that cannot be read any more does not end the deletion", 1)
	r.Rule("C01.R9", "files hold accepted content only: an API entry that writes object files but accepts nothing (Flush, FlushAndCommit, FlushAll*, Close, Create, Repair, the background flusher) never encodes the object its caller passed; what it writes comes from the pending store", 1)
	r.Rule("C01.R6", "UUID assignment: Initialize is called on the write path only under the branch where UUID() is empty, with a value drawn from uuid.NewRandom", 1)
	r.NotDecided = []string{"that field values read equal field values written (JSON round trip, reflection in fieldByName)", "that iteration visits every key at run time", "uniqueness of random UUIDs"}
	r.Assumptions = []string{"schema-table stability within one locked call", "call-level effects (CALL.unindex, CALL.del) stand for primitives that the callee guards by a presence test on its own map"}
	c := computeClosures(p)

	// R1
	ins := rootsByName(p, r, "DB.InsertOrUpdate", "DB.InsertOrUpdateMany")
	mask := effs(EOkAccept, EOkUniqLive, EPutCache, EPutPend, EFsWObj, EFsWSchema, EDirty, EOkObjRead, ECallUnindex, ECallDelCache, ECallDelPend, EFsRmObj, ECallCommit)
	writeNeed := func(val Valuation) []Eff {
		need := []Eff{EOkAccept, EOkUniqLive}
		if val.Cache == triYes || val.Async == triYes {
			need = append(need, EPutCache)
		}
		if val.Async == triYes {
			need = append(need, EPutPend)
		} else {
			need = append(need, EFsWObj)
		}
		return need
	}
	exploreAll(p, c, jobsFor(ins, configVals), mask, r, func(j exploreJob) Listener {
		return &effListener{p: p, r: r, root: j.root, val: j.val, onReturn: func(l *effListener, x *Explorer, st *State, ret *ssa.Return, res []Fact) {
			e, _ := errResult(l.root, res)
			if e == triNo || st.emptyInput() {
				return
			}
			fn := FuncName(l.root)
			construct := "nil return [" + l.val.String() + "]"
			miss := needMissing(st.must, writeNeed(l.val)...)
			if l.val.Async != triYes && st.may.Has(EDirty) {
				miss = strings.TrimPrefix(miss+", schema commit after the last index change", ", ")
			}
			if miss == "" {
				l.ok("C01.R1", fn, construct, l.p.Pos(ret.Pos()))
			} else {
				l.bad("C01.R1", fn, construct, "a successful return of the write entry lacks: "+miss, l.p.Pos(ret.Pos()), x, st, ret)
			}
		}}
	}, nil)
	if many := p.FuncByName("DB.InsertOrUpdateMany"); many != nil {
		n := exploreLoops(p, c, r, many, func(lp natLoop, cl EffSet) bool { return cl.Has(EIdxWLive) && !cl.Has(EHookV) }, configVals, mask,
			func(lp natLoop, idx int, val Valuation) *effListener {
				l := &effListener{p: p, r: r, root: many, val: val}
				l.onEnd = func(l *effListener, x *Explorer, st *State, reason string) {
					if reason != "backedge" {
						return
					}
					construct := fmt.Sprintf("insert loop #%d iteration [%s]", idx, val.String())
					miss := needMissing(st.iter, writeNeed(val)...)
					if miss == "" {
						l.ok("C01.R1", FuncName(many), construct, "")
					} else {
						l.bad("C01.R1", FuncName(many), construct, "an iteration of the batch insert loop continues without: "+miss, "", x, st, nil)
					}
				}
				return l
			}, nil)
		if n == 0 {
			r.Report("C01.R1", FuncName(many), "insert loop", Violated, "no loop of the batch entry inserts into the live index", "", nil, true)
		}
	}

	// R2
	delVals := []Valuation{}
	for _, v := range configVals {
		for _, fe := range []tri{triYes, triNo} {
			v2 := v
			v2.FileExists = fe
			delVals = append(delVals, v2)
		}
	}
	delNeed := func(val Valuation) []Eff {
		need := []Eff{ECallUnindex}
		if val.Cache == triYes || val.Async == triYes {
			need = append(need, ECallDelCache, ECallDelPend)
		}
		if val.FileExists == triYes {
			need = append(need, EFsRmObj)
		}
		return need
	}
	del := rootsByName(p, r, "DB.Delete")
	exploreAll(p, c, jobsFor(del, delVals), mask, r, func(j exploreJob) Listener {
		return &effListener{p: p, r: r, root: j.root, val: j.val, onReturn: func(l *effListener, x *Explorer, st *State, ret *ssa.Return, res []Fact) {
			e, _ := errResult(l.root, res)
			if e == triNo {
				return
			}
			fn := FuncName(l.root)
			construct := "nil return [" + l.val.String() + "]"
			miss := needMissing(st.must, delNeed(l.val)...)
			if st.may.Has(EDirty) {
				miss = strings.TrimPrefix(miss+", schema commit after the un-indexing", ", ")
			}
			if miss == "" {
				l.ok("C01.R2", fn, construct, l.p.Pos(ret.Pos()))
			} else {
				l.bad("C01.R2", fn, construct, "a successful Delete lacks: "+miss, l.p.Pos(ret.Pos()), x, st, ret)
			}
		}}
	}, nil)
	if dob := p.FuncByName("DB.DeleteObjects"); dob != nil {
		n := exploreLoops(p, c, r, dob, func(lp natLoop, cl EffSet) bool { return cl.Has(EIdxWLive) }, delVals, mask,
			func(lp natLoop, idx int, val Valuation) *effListener {
				l := &effListener{p: p, r: r, root: dob, val: val}
				l.onEnd = func(l *effListener, x *Explorer, st *State, reason string) {
					if reason != "backedge" {
						return
					}
					construct := fmt.Sprintf("delete loop #%d iteration [%s]", idx, val.String())
					miss := needMissing(st.iter, delNeed(val)...)
					if miss == "" {
						l.ok("C01.R2", FuncName(dob), construct, "")
					} else {
						l.bad("C01.R2", FuncName(dob), construct, "an iteration of the bulk delete loop continues without: "+miss, "", x, st, nil)
					}
				}
				return l
			}, nil)
		if n == 0 {
			r.Report("C01.R2", FuncName(dob), "delete loop", Violated, "DeleteObjects has no loop that un-indexes", "", nil, true)
		}
		// commit after the loop on every return
		exploreAll(p, c, jobsFor([]*ssa.Function{dob}, []Valuation{{Cache: triNo, Async: triNo}}), mask, r, func(j exploreJob) Listener {
			return &effListener{p: p, r: r, root: j.root, val: j.val, onReturn: func(l *effListener, x *Explorer, st *State, ret *ssa.Return, res []Fact) {
				if e, _ := errResult(l.root, res); e == triNo {
					return
				}
				if st.may.Has(EDirty) {
					l.bad("C01.R2", FuncName(dob), "commit at return", "DeleteObjects can return with index changes that were not committed", l.p.Pos(ret.Pos()), x, st, ret)
				} else {
					l.ok("C01.R2", FuncName(dob), "commit at return", l.p.Pos(ret.Pos()))
				}
			}}
		}, nil)
	}
	// every un-indexing reached from a deleting entry happens inside Delete or DeleteObjects
	delRoots := rootsByName(p, r, "DB.Delete", "DB.DeleteObjects", "DB.DeleteAll", "Search.Delete")
	dobj := p.FuncByName("DB.DeleteObjects")
	dsingle := p.FuncByName("DB.Delete")
	exploreAll(p, c, jobsFor(delRoots, []Valuation{{}}), EffSet{}, r, func(j exploreJob) Listener {
		return &effListener{p: p, r: r, root: j.root, val: j.val, onEvent: func(l *effListener, x *Explorer, st *State, ev *Event) {
			if ev.Kind != EvEffect || ev.Eff != ECallUnindex {
				return
			}
			if st.onStack(dobj) || st.onStack(dsingle) {
				l.ok("C01.R2", FuncName(l.root), "un-index via Delete/DeleteObjects", l.p.Pos(ev.Instr.Pos()))
			} else {
				l.bad("C01.R2", FuncName(l.root), "un-index via Delete/DeleteObjects", "a deleting entry un-indexes outside Delete/DeleteObjects (whose per-object completeness is what R2 checks)", l.p.Pos(ev.Instr.Pos()), x, st, ev.Instr)
			}
		}}
	}, nil)

	// R3: all API roots, cache on
	var jobs []exploreJob
	for _, f := range apiRoots(p) {
		if c.Of(f).Has(EPutCache) {
			jobs = append(jobs, exploreJob{f, Valuation{Cache: triYes, Async: triNo}}, exploreJob{f, Valuation{Cache: triNo, Async: triYes}})
			r.Entries = append(r.Entries, FuncName(f))
		}
	}
	exploreAll(p, c, jobs, effs(EOkObjRead, EOkAccept), r, func(j exploreJob) Listener {
		return &effListener{p: p, r: r, root: j.root, val: j.val, onEvent: func(l *effListener, x *Explorer, st *State, ev *Event) {
			if ev.Kind != EvEffect || ev.Eff != EPutCache {
				return
			}
			// the put belongs to the innermost sod frame that is not a store method
			fn := "?"
			for i := len(st.frames) - 1; i >= 0; i-- {
				n := named(recvType(st.frames[i].fn))
				if n != l.p.A.ObjectStore && n != l.p.A.ObjectMap {
					fn = FuncName(st.frames[i].fn)
					break
				}
			}
			if st.must.Has(EOkObjRead) || st.must.Has(EOkAccept) {
				l.ok("C01.R3", fn, "cache put", l.p.Pos(ev.Instr.Pos()))
			} else {
				l.bad("C01.R3", fn, "cache put", "an object is put into the cache on a path where neither a successful read of its file nor an accepted insertion happened: a later lookup of that identifier is answered from the cache", l.p.Pos(ev.Instr.Pos()), x, st, ev.Instr)
			}
		}}
	}, nil)

	checkErrorDiscipline(p, r, "C01.R4")
	checkMembershipWriters(p, r, "C01.R5")
	checkUUIDAssign(p, r, "C01.R6")
}

func recvType(f *ssa.Function) types.Type {
	if f.Signature.Recv() != nil {
		return f.Signature.Recv().Type()
	}
	return types.Typ[types.Invalid]
}

func init() { register("C01", checkC01) }

// checkErrorDiscipline: no dropped error results.
func checkErrorDiscipline(p *Prog, r *Result, rule string) {
	c := closuresOf(p)
	// enumerated exceptions, recognised by structure (stable under renaming):
	//  - a deferred Close in a function that only reads files;
	//  - a deferred Close in a function that also closes explicitly and uses that error (the deferred one is a safety net);
	//  - a call of a package function that provably returns only the nil error.
	exemptOf := func(fn *ssa.Function, in ssa.Instruction, callee *ssa.Function, isClose bool) string {
		if isClose {
			// closing a file that was only read: nothing can be lost, deferred or not
			if own := c.own[fn]; !own.Has(EFsWObj) && !own.Has(EFsWSchema) && !own.Has(EFsWOther) && !c.Of(fn).Has(EFsWObj) && !c.Of(fn).Has(EFsWSchema) && !c.Of(fn).Has(EFsWOther) {
				return "closing a file that was only read"
			}
			if _, isDefer := in.(*ssa.Defer); isDefer {
				own := c.own[fn]
				if !own.Has(EFsWObj) && !own.Has(EFsWSchema) && !own.Has(EFsWOther) {
					return "closing a file that was only read"
				}
				for _, b := range fn.Blocks {
					for _, i2 := range b.Instrs {
						if call, ok := i2.(*ssa.Call); ok && call != in {
							isC := (call.Call.IsInvoke() && call.Call.Method.Name() == "Close") || classifyExternal(call.Call.StaticCallee()) == xFileClose
							if isC {
								if refs := call.Referrers(); refs != nil {
									for _, rf := range *refs {
										if _, dbg := rf.(*ssa.DebugRef); !dbg {
											return "deferred close after the explicit Close whose error is returned"
										}
									}
								}
							}
						}
					}
				}
			}
		}
		if callee != nil && inSod(p, callee) && callee.Blocks != nil {
			allNil := true
			for _, b := range callee.Blocks {
				for _, i2 := range b.Instrs {
					if ret, ok := i2.(*ssa.Return); ok {
						for _, res := range ret.Results {
							if isErrorType(res.Type()) {
								if cst, ok := res.(*ssa.Const); !ok || cst.Value != nil {
									allNil = false
								}
							}
						}
					}
				}
			}
			if allNil {
				return "the callee returns only the nil error on every path"
			}
		}
		return ""
	}
	for _, fn := range p.Funcs {
		for _, b := range fn.Blocks {
			for _, in := range b.Instrs {
				ci, ok := in.(ssa.CallInstruction)
				if !ok {
					continue
				}
				sig := ci.Common().Signature()
				errIdx := -1
				for i := 0; i < sig.Results().Len(); i++ {
					if isErrorType(sig.Results().At(i).Type()) {
						errIdx = i
					}
				}
				if errIdx < 0 {
					continue
				}
				// scope: storage, codec and package-internal calls
				inScope := ci.Common().IsInvoke()
				if f := ci.Common().StaticCallee(); f != nil {
					if inSod(p, f) {
						inScope = true
					} else if f.Object() != nil && f.Object().Pkg() != nil {
						switch f.Object().Pkg().Path() {
						case "os", "io", "io/ioutil", "encoding/json", "compress/gzip", "time", "regexp", "io/fs":
							inScope = true
						}
					}
				} else if !ci.Common().IsInvoke() {
					inScope = true
				}
				if ci.Common().IsInvoke() {
					switch types.TypeString(ci.Common().Value.Type(), nil) {
					case "io.WriteCloser", "io.Closer", "io.Writer", "io.Reader", "io.ReadCloser":
					default:
						if named(ci.Common().Value.Type()) != p.A.Object {
							inScope = false
						}
					}
				}
				if !inScope {
					continue
				}
				cname := "?"
				if f := ci.Common().StaticCallee(); f != nil {
					cname = FuncName(f)
				} else if ci.Common().IsInvoke() {
					cname = "(" + types.TypeString(ci.Common().Value.Type(), func(p *types.Package) string { return p.Name() }) + ")." + ci.Common().Method.Name()
				}
				dropped := ""
				switch v := in.(type) {
				case *ssa.Defer:
					dropped = "deferred call: its error result is discarded"
				case *ssa.Go:
					dropped = "go statement: its error result is discarded"
				case *ssa.Call:
					refs := v.Referrers()
					used := false
					if refs != nil {
						for _, ref := range *refs {
							switch u := ref.(type) {
							case *ssa.DebugRef:
							case *ssa.Extract:
								if u.Index == errIdx {
									if er := u.Referrers(); er != nil {
										for _, e2 := range *er {
											if _, dbg := e2.(*ssa.DebugRef); !dbg {
												used = true
											}
										}
									}
								}
							default:
								if sig.Results().Len() == 1 {
									used = true
								}
							}
						}
					}
					if !used {
						dropped = "the error result is never used"
					}
				}
				construct := "call " + cname
				if dropped == "" {
					r.Report(rule, FuncName(fn), construct, Discharged, "", p.Pos(in.Pos()), nil, false)
				} else if why := exemptOf(fn, in, ci.Common().StaticCallee(), strings.HasSuffix(cname, ".Close")); why != "" {
					r.Report(rule, FuncName(fn), construct, Discharged, "enumerated exception: "+why, p.Pos(in.Pos()), nil, true)
				} else {
					r.Report(rule, FuncName(fn), construct, Violated, "error dropped: "+dropped, p.Pos(in.Pos()), nil, true)
				}
			}
		}
	}
	checkIteratorErrors(p, r)
	checkBulkDeleteLoop(p, c, r, "C01.R8")
	checkFilesFromAcceptedContent(p, c, r, "C01.R9")
	// premise of the Create exception: Schema.initialize returns only the nil constant
	if f := p.FuncByName("Schema.initialize"); f != nil {
		allNil := true
		for _, b := range f.Blocks {
			for _, in := range b.Instrs {
				if ret, ok := in.(*ssa.Return); ok {
					for _, res := range ret.Results {
						if isErrorType(res.Type()) {
							if c, ok := res.(*ssa.Const); !ok || c.Value != nil {
								allNil = false
							}
						}
					}
				}
			}
		}
		if allNil {
			r.Report(rule, FuncName(f), "R4.const returns nil", Discharged, "", p.Pos(f.Pos()), nil, true)
		} else {
			r.Report(rule, FuncName(f), "R4.const returns nil", Violated, "Schema.initialize can return a non-nil error, but Create ignores its result on the existing-schema branch", p.Pos(f.Pos()), nil, true)
		}
	}
}

// checkMembershipWriters: who writes the uuid<->id maps and the counter.
func checkMembershipWriters(p *Prog, r *Result, rule string) {
	a := p.A
	writers := map[*types.Var]map[string]bool{a.OIUuids: {}, a.OIObjectIds: {}, a.OICounter: {}}
	for _, fn := range p.Funcs {
		for _, b := range fn.Blocks {
			for _, in := range b.Instrs {
				var fld *types.Var
				switch v := in.(type) {
				case *ssa.Store:
					if n, f, _ := fieldOf(v.Addr); n == a.ObjIndex {
						fld = f
					}
				case *ssa.MapUpdate:
					if n, f, _ := loadedField(v.Map); n == a.ObjIndex {
						fld = f
					}
				case *ssa.Call:
					if bi, ok := v.Call.Value.(*ssa.Builtin); ok && bi.Name() == "delete" {
						if n, f, _ := loadedField(v.Call.Args[0]); n == a.ObjIndex {
							fld = f
						}
					}
				}
				if fld != nil {
					if m, ok := writers[fld]; ok {
						// the parts of a decoder (private helpers only it calls) count as the decoder
						if d := decoderOf(fn); d != nil {
							m[FuncName(d)] = true
						} else {
							m[FuncName(fn)] = true
						}
					}
				}
			}
		}
	}
	for fld, ws := range writers {
		if fld == nil {
			continue
		}
		for w := range ws {
			f := p.FuncByName(strings.TrimSuffix(strings.TrimPrefix(strings.Replace(w, "(*objIndex).", "objIndex.", 1), ""), ""))
			_ = f
			isMethod := strings.HasPrefix(w, "(*"+a.ObjIndex.Obj().Name()+").") || w == "newIndex"
			if isMethod {
				r.Report(rule, w, "writes objIndex."+fld.Name(), Discharged, "", "", nil, true)
			} else {
				r.Report(rule, w, "writes objIndex."+fld.Name(), Violated, "membership state of the object index written outside the index type's own methods", "", nil, true)
			}
		}
	}
	// pairing: same writer set for both maps (after construction)
	if a.OIUuids != nil && a.OIObjectIds != nil {
		var diff []string
		for w := range writers[a.OIUuids] {
			if !writers[a.OIObjectIds][w] {
				diff = append(diff, w+" writes uuids only")
			}
		}
		for w := range writers[a.OIObjectIds] {
			if !writers[a.OIUuids][w] {
				diff = append(diff, w+" writes ObjectIds only")
			}
		}
		sort.Strings(diff)
		if len(diff) == 0 {
			r.Report(rule, "objIndex", "paired map writers", Discharged, "", "", nil, true)
		} else {
			r.Report(rule, "objIndex", "paired map writers", Violated, "the two membership maps are not written by the same functions: "+strings.Join(diff, "; "), "", nil, true)
		}
	}
}

// checkUUIDAssign: Initialize on the write path is control dependent on UUID()=="" and fed from uuid.NewRandom.
func checkUUIDAssign(p *Prog, r *Result, rule string) {
	c := computeClosures(p)
	found := 0
	for _, fn := range p.Funcs {
		if !c.own[fn].Has(EHookI) || !c.Of(fn).Has(EUuidNew) {
			continue
		}
		for _, b := range fn.Blocks {
			for _, in := range b.Instrs {
				call, ok := in.(*ssa.Call)
				if !ok || !call.Call.IsInvoke() || call.Call.Method.Name() != "Initialize" || named(call.Call.Value.Type()) != p.A.Object {
					continue
				}
				found++
				// argument from a call whose closure draws a random uuid
				argOK := false
				if ac, ok := call.Call.Args[0].(*ssa.Call); ok {
					if g := ac.Call.StaticCallee(); g != nil && (c.Of(g).Has(EUuidNew) || classifyExternal(g) == xUuidNew) {
						argOK = true
					}
				}
				// dominated by the true edge of UUID()==""
				guardOK := false
				for _, gb := range fn.Blocks {
					ifi, ok := gb.Instrs[len(gb.Instrs)-1].(*ssa.If)
					if !ok {
						continue
					}
					bo, ok := ifi.Cond.(*ssa.BinOp)
					if !ok || (bo.Op != token.EQL && bo.Op != token.NEQ) {
						continue
					}
					// the edge on which the identifier is known to be empty: true edge of ==, false edge of !=
					emptyEdge, otherEdge := gb.Succs[0], gb.Succs[1]
					if bo.Op == token.NEQ {
						emptyEdge, otherEdge = gb.Succs[1], gb.Succs[0]
					}
					isUUID := func(v ssa.Value) bool {
						cc, ok := v.(*ssa.Call)
						return ok && cc.Call.IsInvoke() && cc.Call.Method.Name() == "UUID"
					}
					isEmpty := func(v ssa.Value) bool { s, ok := constString(v); return ok && s == "" }
					if (isUUID(bo.X) && isEmpty(bo.Y)) || (isUUID(bo.Y) && isEmpty(bo.X)) {
						if (emptyEdge == b || emptyEdge.Dominates(b)) && !(otherEdge == b || otherEdge.Dominates(b)) && !blockReaches(otherEdge, b) {
							guardOK = true
						}
					}
				}
				switch {
				case argOK && guardOK:
					r.Report(rule, FuncName(fn), "Initialize(random uuid)", Discharged, "", p.Pos(in.Pos()), nil, true)
				case !guardOK:
					r.Report(rule, FuncName(fn), "Initialize(random uuid)", Violated, "a fresh UUID is assigned on the write path without being guarded by UUID()==\"\": an already identified object would lose its UUID", p.Pos(in.Pos()), nil, true)
				default:
					r.Report(rule, FuncName(fn), "Initialize(random uuid)", Violated, "the UUID assigned on the write path is not drawn from uuid.NewRandom", p.Pos(in.Pos()), nil, true)
				}
			}
		}
	}
	if found == 0 {
		r.Report(rule, "-", "Initialize(random uuid)", Violated, "no write-path site assigns a random UUID to a new object", "", nil, true)
	}
}

// checkIteratorErrors: the error of the iterator's next() ends the draining loops; it must reach more than comparisons
// (be returned, stored, or handed to another function), otherwise a read error is indistinguishable from the end of the
// iteration and the caller gets a partial result without error.
func checkIteratorErrors(p *Prog, r *Result) {
	const rule = "C01.R7"
	r.Rule(rule, "iterator errors are not swallowed: in every function that drains the object iterator, the error returned by next() flows (possibly through a loop-carried variable) into a return value, a store or a call argument whenever the function tests it for nil (a loop that only looks for the end-of-iteration sentinel and deliberately goes on after read errors is the bulk delete's idiom): a loop that merely stops on a non-nil error turns an unreadable object into a silently shorter result", 2)
	itn := p.A.Iterator
	if itn == nil {
		r.Report(rule, "-", "iterator type", Undecided, "iterator type not found", "", nil, false)
		return
	}
	nx := p.FuncByName(itn.Obj().Name() + ".next")
	if nx == nil {
		r.Report(rule, "-", "iterator next", Undecided, "next() not found", "", nil, false)
		return
	}
	for _, fn := range p.Funcs {
		var errs []ssa.Value
		for _, b := range fn.Blocks {
			for _, in := range b.Instrs {
				call, ok := in.(*ssa.Call)
				if !ok || call.Call.StaticCallee() != nx || call.Referrers() == nil {
					continue
				}
				for _, rf := range *call.Referrers() {
					if ex, ok := rf.(*ssa.Extract); ok && isErrorType(ex.Type()) {
						errs = append(errs, ex)
					}
				}
			}
		}
		if len(errs) == 0 {
			continue
		}
		// forward closure through phis and interface conversions; cells (named results / captured) count as stores
		seen := map[ssa.Value]bool{}
		propagates := false
		nilTested := false // the error decides something by being nil or not (a loop that stops at the first error)
		var walk func(v ssa.Value)
		walk = func(v ssa.Value) {
			if seen[v] || propagates || v.Referrers() == nil {
				return
			}
			seen[v] = true
			for _, rf := range *v.Referrers() {
				switch u := rf.(type) {
				case *ssa.Phi:
					walk(u)
				case *ssa.ChangeInterface:
					walk(u)
				case *ssa.MakeInterface:
					walk(u)
				case *ssa.BinOp:
					for _, op := range []ssa.Value{u.X, u.Y} {
						if c, ok := op.(*ssa.Const); ok && c.IsNil() {
							nilTested = true
						}
					}
				case *ssa.Return, *ssa.Store, *ssa.Panic, *ssa.MapUpdate, *ssa.Send:
					propagates = true
				case ssa.CallInstruction:
					if classifyExternal(u.Common().StaticCallee()) != xErrorsIs {
						propagates = true
					}
				}
			}
		}
		for _, e := range errs {
			walk(e)
		}
		if propagates {
			r.Report(rule, FuncName(fn), "error of next() reaches a return, a store or a call", Discharged, "", p.Pos(fn.Pos()), nil, true)
		} else if !nilTested {
			// the error is only compared with the end-of-iteration sentinel: the loop goes on after a read error by
			// design (the bulk delete un-indexes unreadable entries too) and ends at the end of the iteration only
			r.Report(rule, FuncName(fn), "error of next() reaches a return, a store or a call", Discharged, "the loop ends on the end-of-iteration sentinel only and continues after other errors", p.Pos(fn.Pos()), nil, true)
		} else {
			r.Report(rule, FuncName(fn), "error of next() reaches a return, a store or a call", Violated, "the error returned by the iterator is only compared (to nil / to the end-of-iteration sentinel): the loop stops on an unreadable object and the function goes on as if the iteration had ended, returning a partial result and no error", p.Pos(errs[0].Pos()), nil, true)
		}
	}
}
