package main

import (
	"go/types"

	"golang.org/x/tools/go/ssa"
)

// Anchors maps roles to program objects. Exported API names are stable;
// private roles are resolved structurally where possible. A role that does
// not resolve is recorded in Missing and makes every rule using it undecided.
type Anchors struct {
	p *Prog

	DB, Schema, Search, Async *types.Named
	Object                    *types.Named // interface
	ObjIndex, FieldIndex      *types.Named // element type of Schema.ObjectIndex, of its map[string]*T
	IndexedField              *types.Named // element of the index slice
	ObjectStore, ObjectMap    *types.Named
	Iterator                  *types.Named

	// fields (by *types.Var identity)
	DBLock, DBSchemas, DBCache, DBAsyncw, DBCtx, DBCancel, DBRoot            *types.Var
	SchObjectIndex, SchFields, SchExtension, SchCompress, SchCache, SchAsync *types.Var
	SchDB, SchObject, SchTransformers                                        *types.Var
	OIUuids, OIObjectIds, OICounter, OIFields                                *types.Var
	FIIndex, FIObjectIds, FICast, FIConstraints, FIName, FINameSplit         *types.Var
	IFValue, IFObjectId                                                      *types.Var
	InnerMap                                                                 *types.Var // objectMap.m
	StoreMap                                                                 *types.Var // objectStore.m
	SearchFields, SearchErr, SearchLimit, SearchReverse, SearchDB, SearchObj *types.Var

	Sentinels  map[*types.Var]string // error sentinel globals -> name
	SentByName map[string]*types.Var

	SchemaFilename *types.Const

	// name-bound predicates
	MustCache, AsyncEnabled, IsFileAndExist *types.Func

	Missing []string
}

func (a *Anchors) miss(role string) { a.Missing = append(a.Missing, role) }

func named(t types.Type) *types.Named {
	for {
		switch tt := t.(type) {
		case *types.Pointer:
			t = tt.Elem()
		case *types.Named:
			return tt
		default:
			return nil
		}
	}
}

func structOf(n *types.Named) *types.Struct {
	if n == nil {
		return nil
	}
	s, _ := n.Underlying().(*types.Struct)
	return s
}

func fieldByName(n *types.Named, name string) *types.Var {
	s := structOf(n)
	if s == nil {
		return nil
	}
	for i := 0; i < s.NumFields(); i++ {
		if s.Field(i).Name() == name {
			return s.Field(i)
		}
	}
	return nil
}

func fieldIndexOf(n *types.Named, v *types.Var) int {
	s := structOf(n)
	if s == nil {
		return -1
	}
	for i := 0; i < s.NumFields(); i++ {
		if s.Field(i) == v {
			return i
		}
	}
	return -1
}

func isNamedFrom(t types.Type, pkg, name string) bool {
	n := named(t)
	return n != nil && n.Obj().Pkg() != nil && n.Obj().Pkg().Path() == pkg && n.Obj().Name() == name
}

func resolveAnchors(p *Prog) *Anchors {
	a := &Anchors{p: p, Sentinels: map[*types.Var]string{}, SentByName: map[string]*types.Var{}}
	sc := p.Types.Scope()
	lookupNamed := func(name string) *types.Named {
		o := sc.Lookup(name)
		if o == nil {
			a.miss("type " + name)
			return nil
		}
		n, _ := o.Type().(*types.Named)
		if n == nil {
			a.miss("type " + name)
		}
		return n
	}
	a.DB = lookupNamed("DB")
	a.Schema = lookupNamed("Schema")
	a.Search = lookupNamed("Search")
	a.Async = lookupNamed("Async")
	a.Object = lookupNamed("Object")

	// DB fields, structurally
	if s := structOf(a.DB); s != nil {
		for i := 0; i < s.NumFields(); i++ {
			f := s.Field(i)
			switch {
			case isNamedFrom(f.Type(), "sync", "RWMutex"):
				a.DBLock = f
			case isNamedFrom(f.Type(), "context", "Context"):
				a.DBCtx = f
			case isNamedFrom(f.Type(), "context", "CancelFunc"):
				a.DBCancel = f
			default:
				if m, ok := f.Type().Underlying().(*types.Map); ok {
					if named(m.Elem()) == a.Schema {
						a.DBSchemas = f
					}
				} else if b, ok := f.Type().Underlying().(*types.Basic); ok && b.Kind() == types.String {
					a.DBRoot = f
				} else if n := named(f.Type()); n != nil && n.Obj().Pkg() == p.Types {
					// object stores: two fields of the same type, told apart by name
					if a.ObjectStore == nil {
						a.ObjectStore = n
					}
					switch f.Name() {
					case "cache":
						a.DBCache = f
					case "asyncw":
						a.DBAsyncw = f
					}
				}
			}
		}
	}
	if (a.DBCache == nil || a.DBAsyncw == nil) && a.ObjectStore != nil {
		// renamed: the pending store is the store field on which the flush method (the store method taking the handle)
		// is called; the cache is the other store field
		var stores []*types.Var
		if s := structOf(a.DB); s != nil {
			for i := 0; i < s.NumFields(); i++ {
				if named(s.Field(i).Type()) == a.ObjectStore {
					stores = append(stores, s.Field(i))
				}
			}
		}
		flushed := map[*types.Var]bool{}
		for _, fn := range p.Funcs {
			for _, b := range fn.Blocks {
				for _, in := range b.Instrs {
					c, ok := in.(ssa.CallInstruction)
					if !ok {
						continue
					}
					g := c.Common().StaticCallee()
					if g == nil || g.Signature.Recv() == nil || named(g.Signature.Recv().Type()) != a.ObjectStore || len(c.Common().Args) == 0 {
						continue
					}
					takesDB := false
					for i := 0; i < g.Signature.Params().Len(); i++ {
						if named(g.Signature.Params().At(i).Type()) == a.DB {
							takesDB = true
						}
					}
					if !takesDB {
						continue
					}
					if n, f, _ := loadedField(c.Common().Args[0]); n == a.DB && f != nil {
						flushed[f] = true
					}
				}
			}
		}
		if len(stores) == 2 && len(flushed) == 1 {
			for _, f := range stores {
				if flushed[f] {
					a.DBAsyncw = f
				} else {
					a.DBCache = f
				}
			}
		}
	}
	for role, v := range map[string]*types.Var{"DB.lock": a.DBLock, "DB.schemas": a.DBSchemas, "DB.cache": a.DBCache, "DB.asyncw": a.DBAsyncw, "DB.ctx": a.DBCtx, "DB.cancel": a.DBCancel, "DB.root": a.DBRoot} {
		if v == nil {
			a.miss(role)
		}
	}
	// object store -> map[string]*objectMap -> inner map[string]Object
	if s := structOf(a.ObjectStore); s != nil {
		for i := 0; i < s.NumFields(); i++ {
			if m, ok := s.Field(i).Type().Underlying().(*types.Map); ok {
				a.StoreMap = s.Field(i)
				a.ObjectMap = named(m.Elem())
			}
		}
	}
	if s := structOf(a.ObjectMap); s != nil {
		for i := 0; i < s.NumFields(); i++ {
			if m, ok := s.Field(i).Type().Underlying().(*types.Map); ok && named(m.Elem()) == a.Object {
				a.InnerMap = s.Field(i)
			}
		}
	}
	if a.InnerMap == nil {
		a.miss("inner cache map")
	}
	if a.StoreMap == nil {
		a.miss("store map")
	}

	// schema fields by exported name (stable, JSON-tagged API)
	sf := func(name string) *types.Var {
		v := fieldByName(a.Schema, name)
		if v == nil {
			a.miss("Schema." + name)
		}
		return v
	}
	a.SchObjectIndex = sf("ObjectIndex")
	a.SchFields = sf("Fields")
	a.SchExtension = sf("Extension")
	a.SchCompress = sf("Compress")
	a.SchCache = sf("Cache")
	a.SchAsync = sf("AsyncWrites")
	// unexported schema fields by type
	if s := structOf(a.Schema); s != nil {
		for i := 0; i < s.NumFields(); i++ {
			f := s.Field(i)
			if f.Exported() {
				continue
			}
			switch {
			case named(f.Type()) == a.DB:
				a.SchDB = f
			case named(f.Type()) == a.Object:
				a.SchObject = f
			default:
				if _, ok := f.Type().Underlying().(*types.Slice); ok {
					a.SchTransformers = f
				}
			}
		}
	}
	if a.SchDB == nil {
		a.miss("Schema.db")
	}
	if a.SchObject == nil {
		a.miss("Schema.object")
	}
	if a.SchTransformers == nil {
		a.miss("Schema.transformers")
	}

	// index types
	if a.SchObjectIndex != nil {
		a.ObjIndex = named(a.SchObjectIndex.Type())
	}
	if s := structOf(a.ObjIndex); s != nil {
		for i := 0; i < s.NumFields(); i++ {
			f := s.Field(i)
			switch t := f.Type().Underlying().(type) {
			case *types.Map:
				kb, _ := t.Key().Underlying().(*types.Basic)
				eb, _ := t.Elem().Underlying().(*types.Basic)
				switch {
				case kb != nil && kb.Kind() == types.String && eb != nil && eb.Kind() == types.Uint64:
					a.OIUuids = f
				case kb != nil && kb.Kind() == types.Uint64 && eb != nil && eb.Kind() == types.String:
					a.OIObjectIds = f
				case kb != nil && kb.Kind() == types.String && named(t.Elem()) != nil:
					a.OIFields = f
					a.FieldIndex = named(t.Elem())
				}
			case *types.Basic:
				if t.Kind() == types.Uint64 {
					a.OICounter = f
				}
			}
		}
	}
	for role, v := range map[string]*types.Var{"objIndex.uuids": a.OIUuids, "objIndex.ObjectIds": a.OIObjectIds, "objIndex.counter": a.OICounter, "objIndex.Fields": a.OIFields} {
		if v == nil {
			a.miss(role)
		}
	}
	if s := structOf(a.FieldIndex); s != nil {
		for i := 0; i < s.NumFields(); i++ {
			f := s.Field(i)
			switch t := f.Type().Underlying().(type) {
			case *types.Slice:
				if n := named(t.Elem()); n != nil && n.Obj().Pkg() == p.Types {
					a.FIIndex = f
					a.IndexedField = n
				} else {
					a.FINameSplit = f
				}
			case *types.Map:
				a.FIObjectIds = f
			case *types.Struct:
				a.FIConstraints = f
			}
		}
		a.FICast = fieldByName(a.FieldIndex, "Cast")
		a.FIName = fieldByName(a.FieldIndex, "Name")
	}
	for role, v := range map[string]*types.Var{"fieldIndex.Index": a.FIIndex, "fieldIndex.objectIds": a.FIObjectIds, "fieldIndex.Cast": a.FICast, "fieldIndex.Constraints": a.FIConstraints, "fieldIndex.Name": a.FIName} {
		if v == nil {
			a.miss(role)
		}
	}
	if s := structOf(a.IndexedField); s != nil {
		for i := 0; i < s.NumFields(); i++ {
			f := s.Field(i)
			if _, ok := f.Type().Underlying().(*types.Interface); ok {
				a.IFValue = f
			} else if b, ok := f.Type().Underlying().(*types.Basic); ok && b.Kind() == types.Uint64 {
				a.IFObjectId = f
			}
		}
	}
	if a.IFValue == nil || a.IFObjectId == nil {
		a.miss("indexedField fields")
	}

	// Search fields
	if s := structOf(a.Search); s != nil {
		for i := 0; i < s.NumFields(); i++ {
			f := s.Field(i)
			switch t := f.Type().Underlying().(type) {
			case *types.Slice:
				if named(t.Elem()) == a.IndexedField {
					a.SearchFields = f
				}
			case *types.Interface:
				if named(f.Type()) == a.Object {
					a.SearchObj = f
				} else if f.Type().String() == "error" {
					a.SearchErr = f
				}
			case *types.Basic:
				if t.Kind() == types.Uint64 {
					a.SearchLimit = f
				} else if t.Kind() == types.Bool {
					a.SearchReverse = f
				}
			case *types.Pointer:
				if named(f.Type()) == a.DB {
					a.SearchDB = f
				}
			}
		}
	}
	for role, v := range map[string]*types.Var{"Search.fields": a.SearchFields, "Search.err": a.SearchErr, "Search.limit": a.SearchLimit, "Search.reverse": a.SearchReverse, "Search.db": a.SearchDB, "Search.object": a.SearchObj} {
		if v == nil {
			a.miss(role)
		}
	}
	if o := sc.Lookup("iterator"); o != nil {
		a.Iterator, _ = o.Type().(*types.Named)
	}

	// sentinels: every package-level var of type error named Err*
	for _, name := range sc.Names() {
		if v, ok := sc.Lookup(name).(*types.Var); ok && v.Type().String() == "error" {
			a.Sentinels[v] = name
			a.SentByName[name] = v
		}
	}
	for _, s := range []string{"ErrConstraintUnique", "ErrInvalidObject", "ErrIndexCorrupted", "ErrStructureChanged", "ErrFieldDescModif", "ErrExtensionMismatch", "ErrWrongObjectType", "ErrUnkownSearchOperator", "ErrCasting", "ErrUnkownField", "ErrUnknownKeyType", "ErrNoObjectFound", "ErrEOI", "ErrFieldNotIndexed"} {
		if a.SentByName[s] == nil {
			a.miss("sentinel " + s)
		}
	}
	if c, ok := sc.Lookup("SchemaFilename").(*types.Const); ok {
		a.SchemaFilename = c
	} else {
		a.miss("const SchemaFilename")
	}

	meth := func(n *types.Named, name string) *types.Func {
		if n == nil {
			return nil
		}
		for i := 0; i < n.NumMethods(); i++ {
			if n.Method(i).Name() == name {
				return n.Method(i)
			}
		}
		a.miss("method " + n.Obj().Name() + "." + name)
		return nil
	}
	// the two caching predicates: by name, and when renamed by shape (Schema methods `func() bool`; the async predicate
	// reads only the async settings, the caching predicate reads the Cache flag and consults the async predicate)
	quiet := func(n *types.Named, name string) *types.Func {
		if n == nil {
			return nil
		}
		for i := 0; i < n.NumMethods(); i++ {
			if n.Method(i).Name() == name {
				return n.Method(i)
			}
		}
		return nil
	}
	_ = meth
	a.MustCache = quiet(a.Schema, "mustCache")
	a.AsyncEnabled = quiet(a.Schema, "asyncWritesEnabled")
	if a.MustCache == nil || a.AsyncEnabled == nil {
		var readsAsyncOnly, readsCache []*types.Func
		for _, fn := range p.Funcs {
			if fn.Signature.Recv() == nil || named(fn.Signature.Recv().Type()) != a.Schema || fn.Parent() != nil {
				continue
			}
			if fn.Signature.Params().Len() != 0 || fn.Signature.Results().Len() != 1 {
				continue
			}
			if b, ok := fn.Signature.Results().At(0).Type().Underlying().(*types.Basic); !ok || b.Kind() != types.Bool {
				continue
			}
			rc, ra, other := false, false, false
			for _, b := range fn.Blocks {
				for _, in := range b.Instrs {
					if fa, ok := in.(*ssa.FieldAddr); ok {
						if _, f, _ := fieldOf(fa); f != nil {
							switch {
							case f == a.SchCache:
								rc = true
							case f == a.SchAsync:
								ra = true
							default:
								if n, _, _ := fieldOf(fa); n == a.Schema {
									other = true
								}
							}
						}
					}
				}
			}
			fo, _ := fn.Object().(*types.Func)
			if fo == nil || other {
				continue
			}
			if rc {
				readsCache = append(readsCache, fo)
			} else if ra {
				readsAsyncOnly = append(readsAsyncOnly, fo)
			}
		}
		if a.AsyncEnabled == nil && len(readsAsyncOnly) == 1 {
			a.AsyncEnabled = readsAsyncOnly[0]
		}
		if a.MustCache == nil && len(readsCache) == 1 {
			a.MustCache = readsCache[0]
		}
	}
	if a.MustCache == nil {
		a.miss("method Schema.mustCache (caching predicate)")
	}
	if a.AsyncEnabled == nil {
		a.miss("method Schema.asyncWritesEnabled (async predicate)")
	}
	// the regular-file test: by name, else the only package function (string) bool that stats its argument and asks IsRegular
	if f, ok := sc.Lookup("isFileAndExist").(*types.Func); ok {
		a.IsFileAndExist = f
	} else {
		var cands []*types.Func
		for _, fn := range p.Funcs {
			if fn.Signature.Recv() != nil || fn.Parent() != nil || fn.Signature.Params().Len() != 1 || fn.Signature.Results().Len() != 1 {
				continue
			}
			if b, ok := fn.Signature.Results().At(0).Type().Underlying().(*types.Basic); !ok || b.Kind() != types.Bool {
				continue
			}
			stat, reg := false, false
			for _, b := range fn.Blocks {
				for _, in := range b.Instrs {
					if c, ok := in.(*ssa.Call); ok {
						if calleeIs(&c.Call, "os", "Stat") {
							stat = true
						}
						if g := c.Call.StaticCallee(); g != nil && g.Name() == "IsRegular" {
							reg = true
						}
					}
				}
			}
			if fo, _ := fn.Object().(*types.Func); fo != nil && stat && reg {
				cands = append(cands, fo)
			}
		}
		if len(cands) == 1 {
			a.IsFileAndExist = cands[0]
		} else {
			a.miss("func isFileAndExist (regular-file test)")
		}
	}
	return a
}

// calleeIs reports whether the call's static callee is pkg.name or (recv).name.
func calleeIs(c *ssa.CallCommon, pkg, name string) bool {
	f := c.StaticCallee()
	if f == nil || f.Object() == nil || f.Object().Pkg() == nil {
		return false
	}
	return f.Object().Pkg().Path() == pkg && f.Object().Name() == name
}

// recvNamed returns the package path and type name of the receiver of a static method callee.
func recvNamed(f *ssa.Function) (string, string) {
	if f == nil || f.Signature.Recv() == nil {
		return "", ""
	}
	n := named(f.Signature.Recv().Type())
	if n == nil || n.Obj().Pkg() == nil {
		return "", ""
	}
	return n.Obj().Pkg().Path(), n.Obj().Name()
}
