package main

import (
	"fmt"
	"go/types"
	"sync"

	"golang.org/x/tools/go/ssa"
)

// ---- shared driver ---------------------------------------------------------------

type exploreJob struct {
	root *ssa.Function
	val  Valuation
}

var reportMu sync.Mutex

// exploreAll runs one explorer per (root, valuation) in parallel; mk builds the listener.
func exploreAll(p *Prog, c *Closures, jobs []exploreJob, mask EffSet, r *Result, mk func(j exploreJob) Listener, cfg func(x *Explorer)) {
	var wg sync.WaitGroup
	sem := make(chan struct{}, 16)
	for _, j := range jobs {
		j := j
		wg.Add(1)
		sem <- struct{}{}
		go func() {
			defer wg.Done()
			defer func() { <-sem }()
			x := NewExplorer(p, c, j.root, j.val, mk(j))
			x.Mask = mask
			if cfg != nil {
				cfg(x)
			}
			x.Run()
			reportMu.Lock()
			defer reportMu.Unlock()
			for _, u := range x.Undecided {
				r.Report("ENGINE", FuncName(j.root), u, Undecided, u+" ["+j.val.String()+"]", "", nil, false)
			}
			r.Extra["states_explored"] = toInt(r.Extra["states_explored"]) + x.States
			r.Extra["paths_explored"] = toInt(r.Extra["paths_explored"]) + x.Paths
		}()
	}
	wg.Wait()
}

func toInt(v interface{}) int {
	if i, ok := v.(int); ok {
		return i
	}
	return 0
}

// apiRoots: functions callable on a handle (DB, Search), Open, and goroutine closures.
func apiRoots(p *Prog) []*ssa.Function {
	var out []*ssa.Function
	for _, f := range p.Roots() {
		if f.Parent() != nil {
			out = append(out, f) // goroutine closure
			continue
		}
		if f.Signature.Recv() == nil {
			if f.Name() == "Open" {
				out = append(out, f)
			}
			continue
		}
		n := named(f.Signature.Recv().Type())
		if n == p.A.DB || n == p.A.Search {
			out = append(out, f)
		}
	}
	return out
}

// isLockWrapper: a function whose body is nothing but one sync lock call on the handle lock.
func isLockWrapper(p *Prog, fn *ssa.Function) (extKind, bool) {
	if fn == nil || len(fn.Blocks) != 1 {
		return xNone, false
	}
	kind := xNone
	for _, in := range fn.Blocks[0].Instrs {
		switch v := in.(type) {
		case *ssa.FieldAddr, *ssa.DebugRef, *ssa.Return:
		case *ssa.Call:
			k := classifyExternal(v.Call.StaticCallee())
			if k != xLock && k != xRLock && k != xUnlock && k != xRUnlock {
				return xNone, false
			}
			if kind != xNone {
				return xNone, false
			}
			kind = k
		default:
			return xNone, false
		}
	}
	return kind, kind != xNone
}

// lockSiteName: "caller -> locker" for the innermost non-wrapper frame, so that each call edge
// into a locking function is its own obligation.
func lockSiteName(p *Prog, st *State) string {
	for i := len(st.frames) - 1; i >= 0; i-- {
		if _, w := isLockWrapper(p, st.frames[i].fn); !w {
			if i > 0 {
				return FuncName(st.frames[i-1].fn) + " -> " + FuncName(st.frames[i].fn)
			}
			return FuncName(st.frames[i].fn)
		}
	}
	return FuncName(st.frames[0].fn)
}

// userFrame: innermost frame that is not a lock wrapper.
func userFrame(p *Prog, st *State) *ssa.Function {
	for i := len(st.frames) - 1; i >= 0; i-- {
		if _, w := isLockWrapper(p, st.frames[i].fn); !w {
			return st.frames[i].fn
		}
	}
	return st.frames[0].fn
}

func lockOpName(k extKind) string {
	switch k {
	case xLock:
		return "Lock"
	case xRLock:
		return "RLock"
	case xUnlock:
		return "Unlock"
	case xRUnlock:
		return "RUnlock"
	}
	return "?"
}

func heldName(h int8) string {
	switch h {
	case 1:
		return "R"
	case 2:
		return "W"
	}
	return "none"
}

// ---- C09: no API call can block forever ---------------------------------------------

type lockListener struct {
	p    *Prog
	r    *Result
	root *ssa.Function
	val  Valuation
}

func (l *lockListener) rep(rule, fn, construct, status, detail, where string, trace []string) {
	reportMu.Lock()
	defer reportMu.Unlock()
	l.r.Report(rule, fn, construct, status, detail, where, trace, true)
}

func (l *lockListener) Event(x *Explorer, st *State, ev *Event) {
	switch ev.Kind {
	case EvLock:
		fn := lockSiteName(l.p, st)
		where := l.p.Pos(ev.Instr.Pos())
		stack := x.Stack(st, ev.Instr.Pos())
		acquire := ev.LockOp == xLock || ev.LockOp == xRLock
		lk := st.lk
		if acquire {
			// R1: no re-acquisition of the same (non re-entrant) lock
			construct := lockOpName(ev.LockOp) + "(" + ev.LockClass + ")"
			held := false
			switch ev.LockClass {
			case "H":
				held = lk.H != 0
			case "S":
				held = lk.S > 0
			case "M":
				held = lk.M > 0
			case "T":
				held = lk.T > 0
			}
			if held {
				l.rep("C09.R1", fn, construct, Violated,
					fmt.Sprintf("lock %s acquired (%s) while the same goroutine already holds it (held=%s): sync.RWMutex is not re-entrant; with a writer queued in between this never returns", ev.LockClass, lockOpName(ev.LockOp), heldName(lk.H)),
					where, []string{"entry " + FuncName(l.root), stack})
			} else {
				l.rep("C09.R1", fn, construct, Discharged, "", where, nil)
			}
			// R3: order H < T < S < M
			rank := map[string]int{"H": 0, "T": 1, "S": 2, "M": 3}
			bad := ""
			if lk.M > 0 && rank[ev.LockClass] < 3 {
				bad = "M"
			} else if lk.S > 0 && rank[ev.LockClass] < 2 {
				bad = "S"
			} else if lk.T > 0 && rank[ev.LockClass] < 1 {
				bad = "T"
			}
			if bad != "" {
				l.rep("C09.R3", fn, construct, Violated, fmt.Sprintf("lock %s acquired while holding %s: violates the order H < T < S < M", ev.LockClass, bad), where, []string{"entry " + FuncName(l.root), stack})
			} else {
				l.rep("C09.R3", fn, construct, Discharged, "", where, nil)
			}
		} else {
			// R2: release without a matching acquire
			construct := lockOpName(ev.LockOp) + "(" + ev.LockClass + ")"
			under := false
			switch ev.LockClass {
			case "H":
				under = lk.HDepth == 0
				if !under {
					if (ev.LockOp == xUnlock) != (lk.H == 2) {
						l.rep("C09.R2", fn, construct, Violated, fmt.Sprintf("%s releases the handle lock held in mode %s", lockOpName(ev.LockOp), heldName(lk.H)), where, []string{"entry " + FuncName(l.root), stack})
						return
					}
				}
			case "S":
				under = lk.S == 0
			case "M":
				under = lk.M == 0
			case "T":
				under = lk.T == 0
			}
			if _, w := isLockWrapper(l.p, l.root); w && len(st.frames) == 1 {
				return // the exported wrappers themselves are judged by R5
			}
			if under {
				l.rep("C09.R2", fn, construct, Violated, "release of a lock this call path does not hold", where, []string{"entry " + FuncName(l.root), stack})
			} else {
				l.rep("C09.R2", fn, construct, Discharged, "", where, nil)
			}
		}
	case EvEffect:
		// R4: no blocking operation while holding the handle lock
		switch ev.Eff {
		case EChan, ESleep:
			fn := FuncName(st.top().fn)
			construct := ev.Eff.String()
			if st.lk.H != 0 {
				l.rep("C09.R4", fn, construct, Violated, fmt.Sprintf("blocking operation %s while the handle lock is held (%s)", ev.Eff, heldName(st.lk.H)), l.p.Pos(ev.Instr.Pos()), []string{"entry " + FuncName(l.root), x.Stack(st, ev.Instr.Pos())})
			} else {
				l.rep("C09.R4", fn, construct, Discharged, "", l.p.Pos(ev.Instr.Pos()), nil)
			}
		}
	}
}

func (l *lockListener) Return(x *Explorer, st *State, ret *ssa.Return, res []Fact) {
	if _, w := isLockWrapper(l.p, l.root); w {
		return
	}
	fn := FuncName(l.root)
	lk := st.lk
	if lk.H != 0 || lk.S != 0 || lk.M != 0 || lk.T != 0 {
		l.rep("C09.R2", fn, "return", Violated, fmt.Sprintf("entry point returns while still holding a lock (H=%s S=%d M=%d T=%d)", heldName(lk.H), lk.S, lk.M, lk.T), l.p.Pos(ret.Pos()), []string{"entry " + fn})
	} else {
		l.rep("C09.R2", fn, "return", Discharged, "", l.p.Pos(ret.Pos()), nil)
	}
}

func (l *lockListener) End(x *Explorer, st *State, reason string) {}

func checkC09(p *Prog, r *Result, tier string) {
	r.Rule("C09.R1", "no call path from an exported entry point or spawned goroutine acquires a lock (handle lock, store lock, map lock) that the same goroutine already holds", 20)
	r.Rule("C09.R2", "every acquire is released on all non-panicking paths of the entry point, in the matching mode; no release without acquire", 40)
	r.Rule("C09.R3", "lock classes are acquired in the order handle < (table mutex) < store < map; no two locks of one class are nested", 20)
	r.Rule("C09.R4", "no channel operation, select, sleep or Wait while the handle lock is held", 3)
	r.Rule("C09.R5", "the exported Lock/RLock/Unlock/RUnlock wrappers contain nothing but the sync call on the handle lock", 4)
	r.NotDecided = []string{"termination of loops and recursion", "blocking inside OS calls", "user hooks (Transform/Validate/Initialize/UUID) are assumed to return and not to call back into the handle"}
	r.Assumptions = []string{"user hook implementations do not call the database handle", "sync.RWMutex semantics: not re-entrant, a waiting writer blocks new readers"}
	c := computeClosures(p)
	var jobs []exploreJob
	for _, f := range p.Roots() {
		jobs = append(jobs, exploreJob{f, Valuation{}})
		r.Entries = append(r.Entries, FuncName(f))
	}
	exploreAll(p, c, jobs, EffSet{}, r, func(j exploreJob) Listener {
		return &lockListener{p: p, r: r, root: j.root, val: j.val}
	}, nil)
	// R5
	for _, name := range []string{"Lock", "RLock", "Unlock", "RUnlock"} {
		fn := p.FuncByName("DB." + name)
		if fn == nil {
			r.Report("C09.R5", "DB."+name, "wrapper", Undecided, "exported lock wrapper not found", "", nil, false)
			continue
		}
		want := map[string]extKind{"Lock": xLock, "RLock": xRLock, "Unlock": xUnlock, "RUnlock": xRUnlock}[name]
		k, ok := isLockWrapper(p, fn)
		switch {
		case !ok:
			r.Report("C09.R5", "DB."+name, "wrapper", Violated, "wrapper does more than one sync call on the handle lock", p.Pos(fn.Pos()), nil, true)
		case k != want:
			r.Report("C09.R5", "DB."+name, "wrapper", Violated, fmt.Sprintf("wrapper %s performs %s", name, lockOpName(k)), p.Pos(fn.Pos()), nil, true)
		default:
			r.Report("C09.R5", "DB."+name, "wrapper", Discharged, "", p.Pos(fn.Pos()), nil, true)
		}
	}
}

func init() { register("C09", checkC09) }

var _ = types.Universe
