package main

import (
	"fmt"
	"go/types"
	"sort"
	"strings"
	"sync"

	"golang.org/x/tools/go/ssa"
)

// ---- shared driver ---------------------------------------------------------------

type exploreJob struct {
	root *ssa.Function
	val  Valuation
}

var reportMu sync.Mutex

// exploreAll runs one explorer per (root, valuation) in parallel; mk builds the listener.
func exploreAll(p *Prog, c *Closures, jobs []exploreJob, mask EffSet, r *Result, mk func(j exploreJob) Listener, cfg func(x *Explorer)) {
	var wg sync.WaitGroup
	sem := make(chan struct{}, 16)
	for _, j := range jobs {
		j := j
		wg.Add(1)
		sem <- struct{}{}
		go func() {
			defer wg.Done()
			defer func() { <-sem }()
			x := NewExplorer(p, c, j.root, j.val, mk(j))
			x.Mask = mask
			if p.GoRoot[j.root] && (j.root.Parent() != nil || p.GoOnly[j.root]) {
				x.InitFree, x.InitFreeIsCell, x.InitParam = spawnFacts(p, c, j.root)
			}
			if cfg != nil {
				cfg(x)
			}
			x.Run()
			reportMu.Lock()
			defer reportMu.Unlock()
			for _, u := range x.Undecided {
				r.Report("ENGINE", FuncName(j.root), u, Undecided, u+" ["+j.val.String()+"]", "", nil, false)
			}
			r.Extra["states_explored"] = toInt(r.Extra["states_explored"]) + x.States
			r.Extra["paths_explored"] = toInt(r.Extra["paths_explored"]) + x.Paths
		}()
	}
	wg.Wait()
}

func toInt(v interface{}) int {
	if i, ok := v.(int); ok {
		return i
	}
	return 0
}

// apiRoots: functions callable on a handle (DB, Search), Open, and goroutine closures.
func apiRoots(p *Prog) []*ssa.Function {
	var out []*ssa.Function
	for _, f := range p.Roots() {
		if p.GoRoot[f] && (f.Parent() != nil || p.GoOnly[f]) {
			out = append(out, f) // goroutine body
			continue
		}
		if f.Signature.Recv() == nil {
			if f.Name() == "Open" {
				out = append(out, f)
			}
			continue
		}
		n := named(f.Signature.Recv().Type())
		if n == p.A.DB || n == p.A.Search {
			out = append(out, f)
		}
	}
	return out
}

// isLockWrapper: a function whose body is nothing but one sync lock call on the handle lock.
func isLockWrapper(p *Prog, fn *ssa.Function) (extKind, bool) {
	if fn == nil || len(fn.Blocks) != 1 {
		return xNone, false
	}
	kind := xNone
	for _, in := range fn.Blocks[0].Instrs {
		switch v := in.(type) {
		case *ssa.FieldAddr, *ssa.DebugRef, *ssa.Return:
		case *ssa.Call:
			k := classifyExternal(v.Call.StaticCallee())
			if k != xLock && k != xRLock && k != xUnlock && k != xRUnlock {
				return xNone, false
			}
			if kind != xNone {
				return xNone, false
			}
			kind = k
		default:
			return xNone, false
		}
	}
	return kind, kind != xNone
}

// lockSiteName: "caller -> locker" for the innermost non-wrapper frame, so that each call edge
// into a locking function is its own obligation.
func lockSiteName(p *Prog, st *State) string {
	for i := len(st.frames) - 1; i >= 0; i-- {
		if _, w := isLockWrapper(p, st.frames[i].fn); !w {
			if i > 0 {
				return FuncName(st.frames[i-1].fn) + " -> " + FuncName(st.frames[i].fn)
			}
			return FuncName(st.frames[i].fn)
		}
	}
	return FuncName(st.frames[0].fn)
}

// userFrame: innermost frame that is not a lock wrapper.
func userFrame(p *Prog, st *State) *ssa.Function {
	for i := len(st.frames) - 1; i >= 0; i-- {
		if _, w := isLockWrapper(p, st.frames[i].fn); !w {
			return st.frames[i].fn
		}
	}
	return st.frames[0].fn
}

func lockOpName(k extKind) string {
	switch k {
	case xLock:
		return "Lock"
	case xRLock:
		return "RLock"
	case xUnlock:
		return "Unlock"
	case xRUnlock:
		return "RUnlock"
	}
	return "?"
}

func heldName(h int8) string {
	switch h {
	case 1:
		return "R"
	case 2:
		return "W"
	}
	return "none"
}

// ---- C09: no API call can block forever ---------------------------------------------

type lockEdge struct {
	from, to, fn, where, stack, root string
}

type lockListener struct {
	p     *Prog
	r     *Result
	root  *ssa.Function
	val   Valuation
	edges *[]lockEdge
}

func (l *lockListener) edge(from, to, fn, where, stack string) {
	reportMu.Lock()
	defer reportMu.Unlock()
	for _, e := range *l.edges {
		if e.from == from && e.to == to && e.fn == fn {
			return
		}
	}
	*l.edges = append(*l.edges, lockEdge{from, to, fn, where, stack, FuncName(l.root)})
}

func (l *lockListener) rep(rule, fn, construct, status, detail, where string, trace []string) {
	reportMu.Lock()
	defer reportMu.Unlock()
	l.r.Report(rule, fn, construct, status, detail, where, trace, true)
}

func (l *lockListener) Event(x *Explorer, st *State, ev *Event) {
	switch ev.Kind {
	case EvLock:
		fn := lockSiteName(l.p, st)
		where := l.p.Pos(ev.Instr.Pos())
		stack := x.Stack(st, ev.Instr.Pos())
		acquire := ev.LockOp == xLock || ev.LockOp == xRLock
		lk := st.lk
		if acquire {
			// R1: no re-acquisition of the same (non re-entrant) lock
			construct := lockOpName(ev.LockOp) + "(" + ev.LockClass + ")"
			held := false
			switch ev.LockClass {
			case "H":
				held = lk.H != 0
			case "S":
				// the cache store and the pending store are different lock instances
				held = lk.Si[ev.LockInst] > 0 || lk.Si[2] > 0 || (ev.LockInst == 2 && lk.S > 0)
			case "M":
				held = lk.Mi[ev.LockInst] > 0 || lk.Mi[2] > 0 || (ev.LockInst == 2 && lk.M > 0)
			case "T":
				held = lk.T > 0
			}
			if held {
				l.rep("C09.R1", fn, construct, Violated,
					fmt.Sprintf("lock %s acquired (%s) while the same goroutine already holds it (held=%s): sync.RWMutex is not re-entrant; with a writer queued in between this never returns", ev.LockClass, lockOpName(ev.LockOp), heldName(lk.H)),
					where, []string{"entry " + FuncName(l.root), stack})
			} else {
				l.rep("C09.R1", fn, construct, Discharged, "", where, nil)
			}
			// R3: record order edges held -> acquired; cycles are judged after the exploration
			for cls, n := range map[string]int8{"H": lk.H, "T": lk.T, "S": lk.S, "M": lk.M} {
				if n > 0 {
					if cls == ev.LockClass && !held {
						continue // two different instances of one class: judged by R1 only
					}
					l.edge(cls, ev.LockClass, fn, where, stack)
				}
			}
		} else {
			// R2: release without a matching acquire
			construct := lockOpName(ev.LockOp) + "(" + ev.LockClass + ")"
			under := false
			switch ev.LockClass {
			case "H":
				under = lk.HDepth == 0
				if !under {
					if (ev.LockOp == xUnlock) != (lk.H == 2) {
						l.rep("C09.R2", fn, construct, Violated, fmt.Sprintf("%s releases the handle lock held in mode %s", lockOpName(ev.LockOp), heldName(lk.H)), where, []string{"entry " + FuncName(l.root), stack})
						return
					}
				}
			case "S":
				under = lk.S == 0
			case "M":
				under = lk.M == 0
			case "T":
				under = lk.T == 0
			}
			if _, w := isLockWrapper(l.p, l.root); w && len(st.frames) == 1 {
				return // the exported wrappers themselves are judged by R5
			}
			if under {
				l.rep("C09.R2", fn, construct, Violated, "release of a lock this call path does not hold", where, []string{"entry " + FuncName(l.root), stack})
			} else {
				l.rep("C09.R2", fn, construct, Discharged, "", where, nil)
			}
		}
	case EvEffect:
		// R4: no blocking operation while holding the handle lock
		switch ev.Eff {
		case EChan, ESleep:
			fn := FuncName(st.top().fn)
			construct := ev.Eff.String()
			if st.lk.H != 0 {
				l.rep("C09.R4", fn, construct, Violated, fmt.Sprintf("blocking operation %s while the handle lock is held (%s)", ev.Eff, heldName(st.lk.H)), l.p.Pos(ev.Instr.Pos()), []string{"entry " + FuncName(l.root), x.Stack(st, ev.Instr.Pos())})
			} else {
				l.rep("C09.R4", fn, construct, Discharged, "", l.p.Pos(ev.Instr.Pos()), nil)
			}
		}
	}
}

func (l *lockListener) Return(x *Explorer, st *State, ret *ssa.Return, res []Fact) {
	if _, w := isLockWrapper(l.p, l.root); w {
		return
	}
	fn := FuncName(l.root)
	lk := st.lk
	if lk.H != 0 || lk.S != 0 || lk.M != 0 || lk.T != 0 {
		l.rep("C09.R2", fn, "return", Violated, fmt.Sprintf("entry point returns while still holding a lock (H=%s S=%d M=%d T=%d)", heldName(lk.H), lk.S, lk.M, lk.T), l.p.Pos(ret.Pos()), []string{"entry " + fn})
	} else {
		l.rep("C09.R2", fn, "return", Discharged, "", l.p.Pos(ret.Pos()), nil)
	}
}

func (l *lockListener) End(x *Explorer, st *State, reason string) {}

func checkC09(p *Prog, r *Result, tier string) {
	r.Rule("C09.R1", "no call path from an exported entry point or spawned goroutine acquires a lock (handle lock, store lock, map lock) that the same goroutine already holds", 20)
	r.Rule("C09.R2", "every acquire is released on all non-panicking paths of the entry point, in the matching mode; no release without acquire", 40)
	r.Rule("C09.R3", "the graph held-class -> acquired-class over {handle lock H, other package mutexes T, store lock S, map lock M} is acyclic on all call paths; two locks of one class are never nested", 20)
	r.Rule("C09.R4", "no channel operation, select, sleep or Wait while the handle lock is held", 3)
	r.Rule("C09.R5", "the exported Lock/RLock/Unlock/RUnlock wrappers contain nothing but the sync call on the handle lock", 4)
	r.NotDecided = []string{"termination of loops and recursion", "blocking inside OS calls", "user hooks (Transform/Validate/Initialize/UUID) are assumed to return and not to call back into the handle"}
	r.Assumptions = []string{"user hook implementations do not call the database handle", "sync.RWMutex semantics: not re-entrant, a waiting writer blocks new readers"}
	c := computeClosures(p)
	var jobs []exploreJob
	for _, f := range p.Roots() {
		jobs = append(jobs, exploreJob{f, Valuation{}})
		r.Entries = append(r.Entries, FuncName(f))
	}
	var edges []lockEdge
	exploreAll(p, c, jobs, EffSet{}, r, func(j exploreJob) Listener {
		return &lockListener{p: p, r: r, root: j.root, val: j.val, edges: &edges}
	}, nil)
	// R3: the order graph over lock classes must be acyclic (same-class nesting is a self loop)
	succ := map[string]map[string]bool{}
	for _, e := range edges {
		if succ[e.from] == nil {
			succ[e.from] = map[string]bool{}
		}
		succ[e.from][e.to] = true
	}
	var reach func(from, to string, seen map[string]bool) bool
	reach = func(from, to string, seen map[string]bool) bool {
		if from == to {
			return true
		}
		if seen[from] {
			return false
		}
		seen[from] = true
		for n := range succ[from] {
			if reach(n, to, seen) {
				return true
			}
		}
		return false
	}
	var order []string
	for _, e := range edges {
		construct := e.from + " -> " + e.to
		if reach(e.to, e.from, map[string]bool{}) {
			r.Report("C09.R3", e.fn, construct, Violated, fmt.Sprintf("lock class %s is acquired while %s is held, and %s can also be acquired while %s is held: cyclic lock order", e.to, e.from, e.from, e.to), e.where, []string{"entry " + e.root, e.stack}, true)
		} else {
			r.Report("C09.R3", e.fn, construct, Discharged, "", e.where, nil, true)
		}
		order = append(order, construct)
	}
	r.Extra["lock_order_edges"] = sortedKeys(func() map[string]bool {
		m := map[string]bool{}
		for _, o := range order {
			m[o] = true
		}
		return m
	}())
	// R5
	for _, name := range []string{"Lock", "RLock", "Unlock", "RUnlock"} {
		fn := p.FuncByName("DB." + name)
		if fn == nil {
			r.Report("C09.R5", "DB."+name, "wrapper", Undecided, "exported lock wrapper not found", "", nil, false)
			continue
		}
		want := map[string]extKind{"Lock": xLock, "RLock": xRLock, "Unlock": xUnlock, "RUnlock": xRUnlock}[name]
		k, ok := isLockWrapper(p, fn)
		switch {
		case !ok:
			r.Report("C09.R5", "DB."+name, "wrapper", Violated, "wrapper does more than one sync call on the handle lock", p.Pos(fn.Pos()), nil, true)
		case k != want:
			r.Report("C09.R5", "DB."+name, "wrapper", Violated, fmt.Sprintf("wrapper %s performs %s", name, lockOpName(k)), p.Pos(fn.Pos()), nil, true)
		default:
			r.Report("C09.R5", "DB."+name, "wrapper", Discharged, "", p.Pos(fn.Pos()), nil, true)
		}
	}
}

func init() { register("C09", checkC09) }

var _ = types.Universe

// ---- C08: race freedom (lockset analysis over all call paths) ---------------------------

// accessCtx is one (function, mode, lock state) context in which a shared field is touched.
type accessCtx struct {
	fn    string
	write bool
	lk    LockState
	where string
	stack string
	root  string
}

type guardCollector struct {
	mu  sync.Mutex
	acc map[string]map[string]*accessCtx // field key -> ctx key -> ctx
}

type guardListener struct {
	p    *Prog
	r    *Result
	root *ssa.Function
	g    *guardCollector
}

func (l *guardListener) rep(rule, fn, construct, status, detail, where string, trace []string) {
	reportMu.Lock()
	defer reportMu.Unlock()
	l.r.Report(rule, fn, construct, status, detail, where, trace, true)
}

func (l *guardListener) Event(x *Explorer, st *State, ev *Event) {
	a := l.p.A
	switch ev.Kind {
	case EvAccess:
		if ev.Tags&(TFresh|TDecoded) != 0 {
			return // object allocated or decoded in this call tree, not yet published
		}
		name := ""
		switch {
		case ev.Struct != nil && ev.Field != nil:
			name = ev.Struct.Obj().Name() + "." + ev.Field.Name()
		case ev.Tags&TLive != 0:
			name = "(alias of live index memory)"
		case ev.Tags&(TCache|TPend) != 0:
			name = "(alias of store memory)"
		case ev.Tags&TTbl != 0:
			name = "(alias of schema table)"
		default:
			return
		}
		isMapOp := false
		switch ev.Instr.(type) {
		case *ssa.MapUpdate, *ssa.Lookup, *ssa.Range:
			isMapOp = true
		case *ssa.Call:
			isMapOp = true // delete / len / append / copy on a container
		}
		switch {
		case ev.Struct == a.DB:
			if ev.Field == a.DBSchemas && !isMapOp {
				return // loading the map header, set once in Open
			}
		case ev.Struct == a.Schema, ev.Struct == a.Async, ev.Struct == a.ObjIndex, ev.Struct == a.FieldIndex, ev.Struct == a.IndexedField, ev.Struct == nil:
		case ev.Struct == a.ObjectStore, ev.Struct == a.ObjectMap:
			if ev.Field != a.StoreMap && ev.Field != a.InnerMap {
				return // the embedded mutex
			}
			if !isMapOp {
				return // map header, set once at construction
			}
			// instances: cache and pending stores never alias
			switch {
			case ev.Tags&TPend != 0 && ev.Tags&TCache == 0:
				name += "[pending]"
			case ev.Tags&TCache != 0 && ev.Tags&TPend == 0:
				name += "[cache]"
			}
		default:
			return // Search, iterator, descriptors: owned by the calling goroutine
		}
		c := &accessCtx{fn: FuncName(st.top().fn), write: ev.Write, lk: st.lk, where: l.p.Pos(ev.Instr.Pos()), stack: x.Stack(st, ev.Instr.Pos()), root: FuncName(l.root)}
		ck := fmt.Sprintf("%s|%v|%v", c.fn, c.write, c.lk)
		l.g.mu.Lock()
		m := l.g.acc[name]
		if m == nil {
			m = map[string]*accessCtx{}
			l.g.acc[name] = m
		}
		if _, ok := m[ck]; !ok {
			m[ck] = c
		}
		l.g.mu.Unlock()
	case EvEffect:
		switch ev.Eff {
		case EFsWObj, EFsWSchema, EFsWOther, EFsRmObj, EFsRmSchema, EFsRmOther, EFsRmTree, EFsRename:
			fn := FuncName(st.top().fn)
			construct := ev.Eff.String()
			if st.lk.H == 2 {
				l.rep("C08.R2", fn, construct, Discharged, "", l.p.Pos(ev.Instr.Pos()), nil)
			} else {
				l.rep("C08.R2", fn, construct, Violated, fmt.Sprintf("file mutation %s without the handle lock in write mode (held=%s)", ev.Eff, heldName(st.lk.H)), l.p.Pos(ev.Instr.Pos()), []string{"entry " + FuncName(l.root), x.Stack(st, ev.Instr.Pos())})
			}
		}
	}
}

func (l *guardListener) Return(x *Explorer, st *State, ret *ssa.Return, res []Fact) {}
func (l *guardListener) End(x *Explorer, st *State, reason string)                  {}

// excludes: can two goroutines be in contexts a and b at the same time? (false = they exclude each other)
// names of the store and per-type map types in the analysed tree (set by checkC08 from the anchors)
var storeTypeName, mapTypeName = "objectStore", "objectMap"

func excludes(field string, a, b *accessCtx) bool {
	// handle lock: writer vs anyone holding it
	if a.lk.H == 2 && b.lk.H >= 1 || b.lk.H == 2 && a.lk.H >= 1 {
		return true
	}
	// a dedicated package mutex held on both sides
	if a.lk.T > 0 && b.lk.T > 0 {
		return true
	}
	// the container's own lock (store lock for the store map, map lock for an inner map)
	if strings.HasPrefix(field, storeTypeName+".") {
		if a.lk.SW && b.lk.S > 0 || b.lk.SW && a.lk.S > 0 {
			return true
		}
	}
	if strings.HasPrefix(field, mapTypeName+".") {
		if a.lk.MW && b.lk.M > 0 || b.lk.MW && a.lk.M > 0 {
			return true
		}
	}
	return false
}

func protection(c *accessCtx) int {
	return int(c.lk.H)*100 + int(c.lk.T)*10 + int(c.lk.S) + int(c.lk.M)
}

func lkString(lk LockState) string {
	return fmt.Sprintf("H=%s T=%d S=%d%s M=%d%s", heldName(lk.H), lk.T, lk.S, map[bool]string{true: "w", false: ""}[lk.SW], lk.M, map[bool]string{true: "w", false: ""}[lk.MW])
}

func checkC08(p *Prog, r *Result, tier string) {
	r.Rule("C08.R1", "lockset rule over all call paths: for every field of shared index, schema, settings, schema-table, cache or pending-store memory, every write context and every other context touching the same field exclude each other (handle lock writer/any holder, a common package mutex, or the container's own lock); objects allocated or decoded in the current call tree are exempt until published; fields never written after publication may be read freely", 60)
	r.Rule("C08.R2", "every file mutation (write, remove, rename) happens under the handle lock in write mode", 4)
	r.Rule("C08.R3", "check and act in one critical section: in every write entry (single, batch, chunked) each mutation of the live index happens while the verdicts it relies on (successful Validate, successful scratch-index acceptance of the batch) are fresh, i.e. the handle lock was not released since they were obtained", 2)
	checkCheckThenAct(p, computeClosures(p), r, "C08.R3")
	r.NotDecided = []string{"linearizability proper (results equal to some sequential order): needs histories and a sequential oracle; race freedom is necessary for it, not sufficient", "a *Schema handed out by DB.Schema is a live pointer: direct field access by the caller is outside the handle API"}
	r.Assumptions = []string{"Search and iterator values are owned by the calling goroutine", "user hook implementations do not touch the handle", "a store/map lock held while its map is accessed is the lock of that same instance (methods lock their receiver)"}
	c := computeClosures(p)
	if p.A.ObjectStore != nil && p.A.ObjectMap != nil {
		storeTypeName, mapTypeName = p.A.ObjectStore.Obj().Name(), p.A.ObjectMap.Obj().Name()
	}
	var jobs []exploreJob
	for _, f := range apiRoots(p) {
		jobs = append(jobs, exploreJob{f, Valuation{}})
		r.Entries = append(r.Entries, FuncName(f))
	}
	g := &guardCollector{acc: map[string]map[string]*accessCtx{}}
	exploreAll(p, c, jobs, EffSet{}, r, func(j exploreJob) Listener {
		return &guardListener{p: p, r: r, root: j.root, g: g}
	}, nil)
	var fields []string
	for f := range g.acc {
		fields = append(fields, f)
	}
	sort.Strings(fields)
	table := map[string][]string{}
	for _, field := range fields {
		var ctxs []*accessCtx
		for _, c := range g.acc[field] {
			ctxs = append(ctxs, c)
		}
		sort.Slice(ctxs, func(i, j int) bool {
			if ctxs[i].fn != ctxs[j].fn {
				return ctxs[i].fn < ctxs[j].fn
			}
			return fmt.Sprint(ctxs[i].write, ctxs[i].lk) < fmt.Sprint(ctxs[j].write, ctxs[j].lk)
		})
		for _, a := range ctxs {
			mode := "r"
			if a.write {
				mode = "w"
			}
			table[field] = append(table[field], fmt.Sprintf("%s %s {%s}", a.fn, mode, lkString(a.lk)))
			// find a conflicting partner: (a write, b any) or (a any, b write) that do not exclude each other
			var partner *accessCtx
			for _, b := range ctxs {
				if !a.write && !b.write {
					continue
				}
				if excludes(field, a, b) {
					continue
				}
				// blame the less protected side (both if equal)
				if protection(a) <= protection(b) {
					partner = b
					break
				}
			}
			construct := field + ":" + mode
			if partner == nil {
				r.Report("C08.R1", a.fn, construct, Discharged, "", a.where, nil, true)
			} else {
				pm := "read"
				if partner.write {
					pm = "write"
				}
				r.Report("C08.R1", a.fn, construct, Violated,
					fmt.Sprintf("%s of %s with locks {%s} can run concurrently with the %s in %s holding {%s}: nothing excludes the two", map[bool]string{true: "write", false: "read"}[a.write], field, lkString(a.lk), pm, partner.fn, lkString(partner.lk)),
					a.where, []string{"entry " + a.root, a.stack, "concurrent with: entry " + partner.root, partner.stack}, true)
			}
		}
	}
	r.Extra["guard_table_derived"] = table
}

func init() { register("C08", checkC08) }

// spawnFacts: what is known about the captured variables of a goroutine closure at its spawn sites (meet over all
// paths of the spawning function that reach the go statement).
type spawnListener struct {
	closure *ssa.Function
	facts   map[int]Fact
	cell    map[int]bool
	params  map[int]Fact // named go roots: facts about the arguments (receiver first) at the spawn site(s)
	seen    bool
	mu      sync.Mutex
}

func (l *spawnListener) Event(x *Explorer, st *State, ev *Event) {
	if ev.Kind != EvEffect || ev.Eff != EGo || ev.Callee != l.closure {
		return
	}
	g, ok := ev.Instr.(*ssa.Go)
	if !ok {
		return
	}
	mc, ok := g.Call.Value.(*ssa.MakeClosure)
	if !ok {
		if g.Call.StaticCallee() != l.closure {
			return
		}
		l.mu.Lock()
		defer l.mu.Unlock()
		for i, a := range g.Call.Args {
			f := st.factOf(a)
			f.Tags |= x.tagsOf(st, a)
			f.OkNil, f.OkTrue = EffSet{}, EffSet{}
			if !l.seen {
				l.params[i] = f
				continue
			}
			old := l.params[i]
			if old.Nil != f.Nil {
				old.Nil = triUnk
			}
			if old.Bool != f.Bool {
				old.Bool = triUnk
			}
			old.Tags &= f.Tags
			old.Zero = old.Zero && f.Zero
			l.params[i] = old
		}
		l.seen = true
		return
	}
	l.mu.Lock()
	defer l.mu.Unlock()
	for i, b := range mc.Bindings {
		var f Fact
		isCell := false
		if k, ok := x.cellOf(st, b); ok {
			f = st.facts[st.cells[k]]
			isCell = true
		} else {
			f = st.factOf(b)
		}
		f.OkNil, f.OkTrue = EffSet{}, EffSet{}
		if !l.seen {
			l.facts[i], l.cell[i] = f, isCell
			continue
		}
		old := l.facts[i]
		if old.Nil != f.Nil {
			old.Nil = triUnk
		}
		if old.Bool != f.Bool {
			old.Bool = triUnk
		}
		old.Tags &= f.Tags
		old.Zero = old.Zero && f.Zero
		l.facts[i] = old
		l.cell[i] = l.cell[i] && isCell
	}
	l.seen = true
}
func (l *spawnListener) Return(x *Explorer, st *State, ret *ssa.Return, res []Fact) {}
func (l *spawnListener) End(x *Explorer, st *State, reason string)                  {}

var spawnCache sync.Map

func spawnFacts(p *Prog, c *Closures, closure *ssa.Function) (map[int]Fact, map[int]bool, map[int]Fact) {
	if v, ok := spawnCache.Load(closure); ok {
		l := v.(*spawnListener)
		return l.facts, l.cell, l.params
	}
	l := &spawnListener{closure: closure, facts: map[int]Fact{}, cell: map[int]bool{}, params: map[int]Fact{}}
	var spawners []*ssa.Function
	if closure.Parent() != nil {
		spawners = []*ssa.Function{closure.Parent()}
	} else {
		// a named function started with `go f(args)`: every function holding such a statement
		for _, fn := range p.Funcs {
			for _, b := range fn.Blocks {
				for _, in := range b.Instrs {
					if g, ok := in.(*ssa.Go); ok && g.Call.StaticCallee() == closure {
						spawners = append(spawners, fn)
					}
				}
			}
		}
	}
	for _, sp := range spawners {
		for sp.Parent() != nil {
			sp = sp.Parent()
		}
		x := NewExplorer(p, c, sp, Valuation{}, l)
		x.Mask = EffSet{}
		x.Run()
	}
	if !l.seen {
		l.facts, l.cell, l.params = map[int]Fact{}, map[int]bool{}, map[int]Fact{}
	}
	spawnCache.Store(closure, l)
	return l.facts, l.cell, l.params
}

// checkCheckThenAct: no live index mutation on a verdict that predates the last release of the handle lock.
func checkCheckThenAct(p *Prog, c *Closures, r *Result, rule string) {
	var jobs []exploreJob
	for _, f := range apiRoots(p) {
		if p.GoRoot[f] && (f.Parent() != nil || p.GoOnly[f]) {
			continue
		}
		if cl := c.Of(f); cl.Has(EHookV) && cl.Has(EIdxWLive) {
			jobs = append(jobs, exploreJob{f, Valuation{Cache: triNo, Async: triNo}})
		}
	}
	if len(jobs) == 0 {
		r.Report(rule, "-", "write entries", Violated, "no write entry (Validate + live index mutation) found", "", nil, true)
		return
	}
	watch := effs(EOkValid, EOkAcceptTemp)
	exploreAll(p, c, jobs, okBits.Union(effs(EIdxWLive, EHookV)), r, func(j exploreJob) Listener {
		return &effListener{p: p, r: r, root: j.root, val: j.val, onEvent: func(l *effListener, x *Explorer, st *State, ev *Event) {
			if ev.Kind != EvEffect || ev.Eff != EIdxWLive {
				return
			}
			fn := FuncName(l.root)
			if st.stale.Intersects(watch) {
				l.bad(rule, fn, "live index mutation on fresh verdicts", "the live index is modified on the strength of "+st.stale.Inter(watch).String()+" obtained before the handle lock was released: a concurrent writer can invalidate the verdict in between, a batch is then cut in two", l.p.Pos(ev.Instr.Pos()), x, st, ev.Instr)
			} else {
				l.ok(rule, fn, "live index mutation on fresh verdicts", l.p.Pos(ev.Instr.Pos()))
			}
		}}
	}, nil)
}
