package main

import (
	"fmt"
	"go/constant"
	"go/token"
	"go/types"
	"sort"
	"strings"

	"golang.org/x/tools/go/ssa"
)

// ---- C14 ------------------------------------------------------------------------------

func checkC14(p *Prog, r *Result, tier string) {
	r.Rule("C14.R1", "only clones go in: every store into an inner cache map stores the direct result of the deep-clone function", 1)
	r.Rule("C14.R2", "only clones come out: a value looked up in / ranged over an inner cache map flows only into the deep-clone function, UUID(), the object writer and map deletion; it never reaches a return value or a heap store", 2)
	r.Rule("C14.R3", "who may touch the map: the inner cache map is accessed only by methods of its owner type", 1)
	r.Rule("C14.R4", "the clone handles every aliasing kind: the kind switch of the deep clone has a recursing arm for each of Ptr, Slice, Map, Struct and Array", 5)
	r.Rule("C14.R6", "the only object a write API retains is the schema's type witness, and it is used for its type only: it never reaches a hook other than UUID, the serialiser or the clone function", 1)
	r.Rule("C14.R7", "an empty container is not a nil one and a zero value is not a nil one: the deep clone never decides a branch on reflect.Value.Len() == 0 and never returns on IsZero() alone (its early exit is a nil test of pointers, slices and maps), so empty containers are cloned as empty and zero values held in interfaces are kept", 1)
	checkCloneEmptiness(p, r, "C14.R7")
	r.Rule("C14.R8", "what the encoder serialises is what the clone deep-copies: the struct arm of the deep clone also goes through embedded (anonymous) struct fields whose type is not exported, whose exported fields are promoted and serialised (it reads reflect.StructField.Anonymous to find them)", 1)
	checkCloneEmbedded(p, r, "C14.R8")
	r.Rule("C14.R9", "every element is cloned into a destination of its own: inside a loop of the deep clone, the reflect.New value handed to a recursive clone call is made in the same iteration", 1)
	checkCloneFreshDestination(p, r, "C14.R9")
	r.Rule("C14.R5", "fresh objects on reads: the iterator allocates a new value per element before filling it", 1)
	r.NotDecided = []string{"'a cached read equals a file round trip' (value equality of clone vs JSON: nil vs empty containers, monotonic clock, unexported fields)", "unexported pointer fields are shared by documented design (comment in object.go)"}
	a := p.A
	clone := p.FuncByName("CloneObject")
	if clone == nil {
		r.Report("ANCHOR", "-", "CloneObject", Undecided, "deep-clone function not found", "", nil, false)
		return
	}
	// R1 / R3
	nPut := 0
	for _, fn := range p.Funcs {
		for _, b := range fn.Blocks {
			for _, in := range b.Instrs {
				var m ssa.Value
				switch v := in.(type) {
				case *ssa.MapUpdate:
					m = v.Map
				case *ssa.Lookup:
					m = v.X
				case *ssa.Range:
					m = v.X
				case *ssa.Call:
					if bi, ok := v.Call.Value.(*ssa.Builtin); ok && (bi.Name() == "delete" || bi.Name() == "len") && len(v.Call.Args) > 0 {
						m = v.Call.Args[0]
					}
				}
				if m == nil {
					continue
				}
				n, f, _ := loadedField(m)
				if n != a.ObjectMap || f != a.InnerMap {
					continue
				}
				owner := fn.Signature.Recv() != nil && named(fn.Signature.Recv().Type()) == a.ObjectMap
				if owner {
					r.Report("C14.R3", FuncName(fn), "inner map touched by its owner only", Discharged, "", p.Pos(in.Pos()), nil, true)
				} else {
					r.Report("C14.R3", FuncName(fn), "inner map touched by its owner only", Violated, "the inner cache map is accessed outside the methods of its owner type: clone-in / clone-out cannot be enforced there", p.Pos(in.Pos()), nil, true)
				}
				if mu, ok := in.(*ssa.MapUpdate); ok {
					nPut++
					call, isCall := mu.Value.(*ssa.Call)
					if isCall && call.Call.StaticCallee() == clone {
						r.Report("C14.R1", FuncName(fn), "cache store is a clone", Discharged, "", p.Pos(in.Pos()), nil, true)
					} else {
						r.Report("C14.R1", FuncName(fn), "cache store is a clone", Violated, "an object is stored in the cache / pending store without being deep-cloned: the caller's later mutations change what reads return", p.Pos(in.Pos()), nil, true)
					}
				}
			}
		}
	}
	if nPut == 0 {
		r.Report("C14.R1", "-", "cache store is a clone", Violated, "no store into the inner cache map found", "", nil, true)
	}
	// R2: path analysis: cached memory (anything loaded out of the cache / pending store) never reaches a result of an
	// API call nor a heap location outside the stores
	c := computeClosures(p)
	var jobs []exploreJob
	for _, f := range apiRoots(p) {
		if f.Parent() == nil && (c.Of(f).Has(EGetCache) || c.Of(f).Has(EIterStore)) {
			jobs = append(jobs, exploreJob{f, Valuation{Cache: triYes, Async: triYes}})
			r.Entries = append(r.Entries, FuncName(f))
		}
	}
	for _, name := range []string{"objectMap.get", "objectStore.get", "DB.get"} {
		if f := p.FuncByName(name); f != nil {
			jobs = append(jobs, exploreJob{f, Valuation{Cache: triYes, Async: triYes}})
		}
	}
	exploreAll(p, c, jobs, EffSet{}, r, func(j exploreJob) Listener {
		return &effListener{p: p, r: r, root: j.root, val: j.val,
			onEvent: func(l *effListener, x *Explorer, st *State, ev *Event) {
				if ev.Kind == EvEffect && ev.Tags&TWitness != 0 {
					switch ev.Eff {
					case EHookT, EHookV, EHookI, EJsonEncObj, EClone:
						l.bad("C14.R6", FuncName(st.top().fn), "type witness used as a value: "+ev.Eff.String(), "the object a schema keeps as its type witness (possibly the caller's or a cached instance) is used as a value, not only for its type", l.p.Pos(ev.Instr.Pos()), x, st, ev.Instr)
					}
				}
				if ev.Kind == EvAccess && ev.Write && ev.Struct == a.Schema && ev.Field == a.SchObject {
					// vetted: the schema keeps the first object it sees as a TYPE witness (R6 checks it is only used for its type)
					l.note("C14.R6", FuncName(st.top().fn), "schema keeps a type witness", "enumerated exception: retained for its type only", l.p.Pos(ev.Instr.Pos()))
					return
				}
				if ev.Kind == EvAccess && ev.Write && ev.VTags&(TCache|TPend) != 0 && ev.VTags&TFresh == 0 && ev.Struct != a.ObjectMap && ev.Struct != a.ObjectStore {
					if sto, ok := ev.Instr.(*ssa.Store); ok && isPointerLike(sto.Val.Type()) && named(sto.Val.Type()) == a.Object {
						l.bad("C14.R2", FuncName(st.top().fn), "cached object stored outside the stores", "an object taken from the cache / pending store is stored in other memory without being cloned", l.p.Pos(ev.Instr.Pos()), x, st, ev.Instr)
					}
				}
			},
			onReturn: func(l *effListener, x *Explorer, st *State, ret *ssa.Return, res []Fact) {
				fn := FuncName(l.root)
				leak := false
				for i, f := range res {
					if i < len(ret.Results) && named(ret.Results[i].Type()) == a.Object && f.Tags&(TCache|TPend) != 0 && f.Nil != triYes {
						leak = true
					}
				}
				if leak {
					l.bad("C14.R2", fn, "returned object is not cached memory", "the call returns an object that is the cached instance itself, not a clone: the caller and later reads share mutable memory", l.p.Pos(ret.Pos()), x, st, ret)
				} else {
					l.ok("C14.R2", fn, "returned object is not cached memory", l.p.Pos(ret.Pos()))
				}
			}}
	}, nil)
	checkCloneKinds(p, r, "C14.R4")
	// R5
	if a.Iterator != nil {
		if nx := p.FuncByName(a.Iterator.Obj().Name() + ".next"); nx != nil {
			okNew := false
			for _, b := range nx.Blocks {
				for _, in := range b.Instrs {
					if call, ok := in.(*ssa.Call); ok {
						if f := call.Call.StaticCallee(); f != nil && inSod(p, f) {
							for _, fb := range f.Blocks {
								for _, fi := range fb.Instrs {
									if c2, ok := fi.(*ssa.Call); ok {
										if g := c2.Call.StaticCallee(); g != nil && g.Object() != nil && g.Object().Pkg() != nil && g.Object().Pkg().Path() == "reflect" && g.Name() == "New" {
											okNew = true
										}
									}
								}
							}
						}
					}
				}
			}
			if okNew {
				r.Report("C14.R5", FuncName(nx), "new value per element", Discharged, "", p.Pos(nx.Pos()), nil, true)
			} else {
				r.Report("C14.R5", FuncName(nx), "new value per element", Violated, "the iterator does not allocate a new value (reflect.New) per element: collected objects would share memory", p.Pos(nx.Pos()), nil, true)
			}
		}
	}
}

// leakOfCached follows a cached value; returns a description of an escaping use, or "".
func leakOfCached(p *Prog, v ssa.Value, clone *ssa.Function, seen map[ssa.Value]bool) string {
	if seen[v] {
		return ""
	}
	seen[v] = true
	refs := v.Referrers()
	if refs == nil {
		return ""
	}
	for _, rf := range *refs {
		switch u := rf.(type) {
		case *ssa.DebugRef:
		case *ssa.Call:
			if u.Call.IsInvoke() {
				if u.Call.Value == v && u.Call.Method.Name() == "UUID" {
					continue
				}
				return "is passed to / has " + u.Call.Method.Name() + " invoked on it"
			}
			f := u.Call.StaticCallee()
			switch {
			case f == clone:
			case f != nil && inSod(p, f) && f.Name() == "writeObject":
				// serialised, not retained
			case f != nil && f.Object() != nil && f.Object().Pkg() != nil && f.Object().Pkg().Path() == "encoding/json":
			default:
				name := "?"
				if f != nil {
					name = FuncName(f)
				}
				return "is passed to " + name
			}
		case *ssa.Return:
			return "is returned"
		case *ssa.Store:
			if u.Val == v {
				if al, ok := u.Addr.(*ssa.Alloc); ok && !al.Heap {
					// local variable (named result): follow its loads
					if ar := al.Referrers(); ar != nil {
						for _, r2 := range *ar {
							if ld, ok := r2.(*ssa.UnOp); ok && ld.Op == token.MUL {
								if s := leakOfCached(p, ld, clone, seen); s != "" {
									return s
								}
							}
						}
					}
					continue
				}
				return "is stored in memory"
			}
		case *ssa.Phi:
			if s := leakOfCached(p, u, clone, seen); s != "" {
				return s
			}
		case *ssa.ChangeInterface:
			if s := leakOfCached(p, u, clone, seen); s != "" {
				return s
			}
		case *ssa.MakeInterface:
			if s := leakOfCached(p, u, clone, seen); s != "" {
				return s
			}
		case *ssa.MapUpdate:
			if u.Value == v {
				return "is stored in a map"
			}
		case *ssa.BinOp, *ssa.If:
		default:
			return fmt.Sprintf("flows into %T", rf)
		}
	}
	return ""
}

var reflectKinds = map[int64]string{17: "Array", 20: "Interface", 21: "Map", 22: "Ptr", 23: "Slice", 24: "String", 25: "Struct"}

// checkCloneKinds: arms of the kind switch of the recursive clone.
func checkCloneKinds(p *Prog, r *Result, rule string) {
	cv := p.FuncByName("cloneValue")
	if cv == nil {
		r.Report(rule, "cloneValue", "kind switch", Undecided, "recursive clone not found", "", nil, false)
		return
	}
	deep := map[string]bool{}
	conditional := map[string]bool{}
	for _, b := range cv.Blocks {
		ifi, ok := b.Instrs[len(b.Instrs)-1].(*ssa.If)
		if !ok {
			continue
		}
		bo, ok := ifi.Cond.(*ssa.BinOp)
		if !ok || bo.Op != token.EQL {
			continue
		}
		var k int64 = -1
		for _, side := range []ssa.Value{bo.X, bo.Y} {
			if cst, ok := side.(*ssa.Const); ok && cst.Value != nil && cst.Value.Kind() == constant.Int && isNamedFrom(cst.Type(), "reflect", "Kind") {
				k, _ = constant.Int64Val(cst.Value)
			}
		}
		if k < 0 {
			continue
		}
		// does the arm (blocks dominated by the true successor) recurse?
		arm := b.Succs[0]
		recurses := false
		for _, ab := range cv.Blocks {
			if ab != arm && !arm.Dominates(ab) {
				continue
			}
			for _, in := range ab.Instrs {
				if call, ok := in.(*ssa.Call); ok && call.Call.StaticCallee() == cv {
					recurses = true
				}
				// the arm's work extracted into a helper that recurses into the clone
				if call, ok := in.(*ssa.Call); ok {
					if h := call.Call.StaticCallee(); h != nil && h != cv && h.Blocks != nil && inSod(p, h) {
						rec, cond := helperRecursion(h, cv)
						if rec {
							recurses = true
							if cond {
								conditional[reflectKinds[k]] = true
							}
						}
					}
				}
			}
		}
		if recurses {
			deep[reflectKinds[k]] = true
			// the recursion must not depend on a further kind test inside the arm (a fast path for "simple" element kinds
			// leaves aggregates of references shallow)
			for _, ab := range cv.Blocks {
				if ab != arm && !arm.Dominates(ab) {
					continue
				}
				for _, in := range ab.Instrs {
					call, ok := in.(*ssa.Call)
					if !ok || call.Call.StaticCallee() != cv {
						continue
					}
					for d := ab; d != nil && d != arm.Idom(); d = d.Idom() {
						if d == ab {
							continue
						}
						if ifi, ok := d.Instrs[len(d.Instrs)-1].(*ssa.If); ok && (arm == d || arm.Dominates(d)) {
							if bo, ok := ifi.Cond.(*ssa.BinOp); ok {
								for _, side := range []ssa.Value{bo.X, bo.Y} {
									if cst, ok := side.(*ssa.Const); ok && isNamedFrom(cst.Type(), "reflect", "Kind") {
										conditional[reflectKinds[k]] = true
									}
								}
							}
						}
					}
				}
			}
		}
	}
	var have []string
	for k := range deep {
		have = append(have, k)
	}
	sort.Strings(have)
	for _, k := range []string{"Ptr", "Slice", "Map", "Struct", "Array"} {
		if deep[k] && conditional[k] {
			r.Report(rule, FuncName(cv), "deep arm for "+k, Violated, "the "+k+" arm of the deep clone recurses only for some element kinds (a kind test guards the recursion): elements of the other kinds (e.g. structs or arrays holding slices, maps, pointers) are copied shallowly and stay shared", p.Pos(cv.Pos()), nil, true)
		} else if deep[k] {
			r.Report(rule, FuncName(cv), "deep arm for "+k, Discharged, "", p.Pos(cv.Pos()), nil, true)
		} else {
			r.Report(rule, FuncName(cv), "deep arm for "+k, Violated, "the deep clone has no recursing arm for reflect."+k+" (arms: "+strings.Join(have, ", ")+"): values of that kind are copied shallowly, so pointers inside them stay shared between the caller and the cache", p.Pos(cv.Pos()), nil, true)
		}
	}
}

// helperRecursion: does h call the recursive clone cv, and is any such call guarded by a comparison with a reflect.Kind
// constant inside h (a fast path that leaves some kinds shallow)?
func helperRecursion(h, cv *ssa.Function) (recurses, conditional bool) {
	return helperRecursionDepth(h, cv, 2)
}

func helperRecursionDepth(h, cv *ssa.Function, depth int) (recurses, conditional bool) {
	for _, b := range h.Blocks {
		for _, in := range b.Instrs {
			call, ok := in.(*ssa.Call)
			if !ok {
				continue
			}
			if g := call.Call.StaticCallee(); g != cv {
				// a further helper on the way back to the clone
				if depth == 0 || g == nil || g == h || g.Blocks == nil || g.Pkg != h.Pkg {
					continue
				}
				rec, cond := helperRecursionDepth(g, cv, depth-1)
				if !rec {
					continue
				}
				if cond {
					conditional = true
				}
			}
			recurses = true
			for d := b.Idom(); d != nil; d = d.Idom() {
				ifi, ok := d.Instrs[len(d.Instrs)-1].(*ssa.If)
				if !ok {
					continue
				}
				if bo, ok := ifi.Cond.(*ssa.BinOp); ok {
					for _, side := range []ssa.Value{bo.X, bo.Y} {
						if cst, ok := side.(*ssa.Const); ok && isNamedFrom(cst.Type(), "reflect", "Kind") {
							conditional = true
						}
					}
				}
			}
		}
	}
	return
}

// checkCloneEmbedded: the clone looks at StructField.Anonymous.
func checkCloneEmbedded(p *Prog, r *Result, rule string) {
	cv := p.FuncByName("cloneValue")
	if cv == nil {
		r.Report(rule, "cloneValue", "embedded fields", Undecided, "recursive clone not found", "", nil, false)
		return
	}
	reads := false
	for _, f := range calleesWithin(p, cv, 2) {
		for _, b := range f.Blocks {
			for _, in := range b.Instrs {
				var st *types.Struct
				idx := -1
				switch v := in.(type) {
				case *ssa.Field:
					st, _ = v.X.Type().Underlying().(*types.Struct)
					idx = v.Field
				case *ssa.FieldAddr:
					if pt, ok := v.X.Type().Underlying().(*types.Pointer); ok {
						st, _ = pt.Elem().Underlying().(*types.Struct)
					}
					idx = v.Field
				}
				if st != nil && idx >= 0 && idx < st.NumFields() && st.Field(idx).Name() == "Anonymous" && st.Field(idx).Pkg() != nil && st.Field(idx).Pkg().Path() == "reflect" {
					reads = true
				}
			}
		}
	}
	if reads {
		r.Report(rule, FuncName(cv), "embedded struct fields are gone through", Discharged, "", p.Pos(cv.Pos()), nil, true)
	} else {
		r.Report(rule, FuncName(cv), "embedded struct fields are gone through", Violated, "the deep clone only recurses into exported struct fields: the exported fields promoted from an embedded struct of an unexported type are serialised but copied shallowly, so their slices, maps and pointers are shared between the caller's object and the cached one", p.Pos(cv.Pos()), nil, true)
	}
}

// checkCloneEmptiness: the deep clone must tell an empty container from a nil one.
func checkCloneEmptiness(p *Prog, r *Result, rule string) {
	cv := p.FuncByName("cloneValue")
	if cv == nil {
		r.Report(rule, "cloneValue", "nil test", Undecided, "recursive clone not found", "", nil, false)
		return
	}
	bad := false
	var at ssa.Instruction
	for _, f := range calleesWithin(p, cv, 1) {
		for _, b := range f.Blocks {
			for _, in := range b.Instrs {
				bo, ok := in.(*ssa.BinOp)
				if !ok || (bo.Op != token.EQL && bo.Op != token.NEQ) {
					continue
				}
				for i, side := range []ssa.Value{bo.X, bo.Y} {
					other := []ssa.Value{bo.Y, bo.X}[i]
					c, ok := side.(*ssa.Call)
					if !ok || c.Call.StaticCallee() == nil || c.Call.StaticCallee().Name() != "Len" || c.Call.StaticCallee().Signature.Recv() == nil || !isNamedFrom(c.Call.StaticCallee().Signature.Recv().Type(), "reflect", "Value") {
						continue
					}
					if k, ok := other.(*ssa.Const); ok && k.Value != nil && k.Value.String() == "0" {
						// decides a branch?
						if bo.Referrers() != nil {
							for _, rf := range *bo.Referrers() {
								if _, ok := rf.(*ssa.If); ok {
									bad, at = true, in
								}
							}
						}
					}
				}
			}
		}
	}
	// IsZero() alone must not lead straight to a return: zero scalars and zero structs held in an interface slot would
	// be cloned as a nil interface; the early exit is for nil pointers, slices and maps (IsZero plus a kind test, or IsNil)
	zeroOnly := false
	for _, f := range calleesWithin(p, cv, 1) {
		for _, b := range f.Blocks {
			ifi, ok := b.Instrs[len(b.Instrs)-1].(*ssa.If)
			if !ok {
				continue
			}
			c, ok := ifi.Cond.(*ssa.Call)
			if !ok || c.Call.StaticCallee() == nil || c.Call.StaticCallee().Name() != "IsZero" || c.Call.StaticCallee().Signature.Recv() == nil || !isNamedFrom(c.Call.StaticCallee().Signature.Recv().Type(), "reflect", "Value") {
				continue
			}
			// the true successor returns without any further test
			t := b.Succs[0]
			for _, in := range t.Instrs {
				if _, ok := in.(*ssa.Return); ok {
					zeroOnly, at = true, ifi
				}
			}
		}
	}
	if zeroOnly {
		r.Report(rule, FuncName(cv), "nil, not emptiness, ends the clone early", Violated, "the deep clone returns as soon as the source value is the zero value of its type, whatever its kind: a zero scalar or struct held in an interface{} member (or element) is left out and the clone holds a nil interface, so a cached read returns null where the file holds \"\", 0 or false", p.Pos(at.Pos()), nil, true)
		return
	}
	if bad {
		r.Report(rule, FuncName(cv), "nil, not emptiness, ends the clone early", Violated, "the deep clone branches on the length of a container being 0: an empty non-nil slice or map is then not cloned and the copy holds nil, which the object writer encodes as null instead of [] / {} (the file is no longer the JSON encoding of the accepted object, and a reopened database hands back nil)", p.Pos(at.Pos()), nil, true)
	} else {
		r.Report(rule, FuncName(cv), "nil, not emptiness, ends the clone early", Discharged, "", p.Pos(cv.Pos()), nil, true)
	}
}

func init() { register("C14", checkC14) }

var _ = types.Universe
