package main

import (
	"fmt"
	"go/token"
	"go/types"
	"sort"
	"strings"

	"golang.org/x/tools/go/ssa"
)

// ---- C16 ------------------------------------------------------------------------------

func checkC16(p *Prog, r *Result, tier string) {
	r.Rule("C16.R1", "canonicalise before index/store: on every path of every insertion entry the schema case transforms run after the object's Transform and before Validate, the accepting insertion, the cache/pending put and the object write (shared with C15.R1, re-evaluated here)", 6)
	r.Rule("C16.R2", "every search value is canonicalised: in the search dispatcher both evaluators are called only after the call that applies the field's case transform to the value; And/Or/Operation reach the evaluators only through the dispatcher", 3)
	r.Rule("C16.R3", "the transformer list is complete: Transformers() filters all descriptors by Transformer(), whose truth table is upper || lower; the schema's list is assigned from it before publication (C04.R4)", 2)
	r.Rule("C16.R4", "tag table: the struct-tag words index, unique, lower, upper set exactly the constraint whose JSON key equals the word (unique also sets index); no other word sets anything; every ordered pair of words sets the union of what each sets (no word resets what an earlier one set)", 5)
	r.Rule("C16.R5", "only the two standard mappings: inside the field transform every strings.ToUpper call is guarded by the Upper flag and every strings.ToLower call by the Lower flag, and nothing else rewrites the value", 2)
	r.NotDecided = []string{"Unicode idempotence and ordering of strings.ToUpper/ToLower (standard library)", "named string types (a 'type S string' field with a case tag panics in v.Interface().(string): a property of the struct definition)"}
	c := computeClosures(p)
	a := p.A

	// R1
	roots := rootsByName(p, r, "DB.InsertOrUpdate", "DB.InsertOrUpdateMany")
	mask := mutIns.Union(okBits).Union(effs(EHookV, EHookT, ECanon))
	exploreAll(p, c, jobsFor(roots, configVals), mask, r, func(j exploreJob) Listener {
		return &effListener{p: p, r: r, root: j.root, val: j.val, onEvent: func(l *effListener, x *Explorer, st *State, ev *Event) {
			if ev.Kind != EvEffect {
				return
			}
			fn := FuncName(st.top().fn)
			where := l.p.Pos(ev.Instr.Pos())
			switch {
			case ev.Eff == ECanon:
				if st.must.Has(EHookT) {
					l.ok("C16.R1", fn, "case transforms after Transform", where)
				} else {
					l.bad("C16.R1", fn, "case transforms after Transform", "the schema case transforms run before the object's Transform: Transform could undo them (the schema transformation must supersede the object's)", where, x, st, ev.Instr)
				}
			case ev.Eff == EHookV, mutIns.Has(ev.Eff):
				construct := "canonical before " + ev.Eff.String()
				if st.must.Has(ECanon) {
					l.ok("C16.R1", fn, construct, where)
				} else {
					l.bad("C16.R1", fn, construct, "the value reaches "+ev.Eff.String()+" before the case transforms ran: it would be validated / indexed / stored in the case the caller supplied", where, x, st, ev.Instr)
				}
			}
		}}
	}, nil)

	// R2
	srch := p.FuncByName("DB.search")
	if srch == nil {
		r.Report("C16.R2", "DB.search", "dispatcher", Undecided, "search dispatcher not found", "", nil, false)
	} else {
		exploreAll(p, c, []exploreJob{{srch, Valuation{Cache: triNo, Async: triNo}}}, effs(ECanon), r, func(j exploreJob) Listener {
			return &effListener{p: p, r: r, root: j.root, val: j.val, onEvent: func(l *effListener, x *Explorer, st *State, ev *Event) {
				if ev.Kind != EvCall || len(st.frames) != 1 || !hasSearchSig(ev.Callee) {
					return
				}
				if st.must.Has(ECanon) {
					l.ok("C16.R2", FuncName(srch), "evaluator "+FuncName(ev.Callee)+" after value canonicalisation", l.p.Pos(ev.Instr.Pos()))
				} else {
					l.bad("C16.R2", FuncName(srch), "evaluator "+FuncName(ev.Callee)+" after value canonicalisation", "an evaluator is called with a search value that did not go through the field's case transform: the search would be case-sensitive on this path", l.p.Pos(ev.Instr.Pos()), x, st, ev.Instr)
				}
			}}
		}, nil)
		// refinements only through the dispatcher
		for _, name := range []string{"Search.And", "Search.Or"} {
			f := p.FuncByName(name)
			if f == nil {
				continue
			}
			direct := false
			via := false
			for _, b := range f.Blocks {
				for _, in := range b.Instrs {
					if call, ok := in.(*ssa.Call); ok {
						g := call.Call.StaticCallee()
						if g == srch || forwardsToDispatcher(p, g, srch) >= 0 {
							via = true
						} else if g != nil && inSod(p, g) && hasSearchSig(g) && g != f {
							direct = true
						}
					}
				}
			}
			if via && !direct {
				r.Report("C16.R2", FuncName(f), "refinement goes through the dispatcher", Discharged, "", p.Pos(f.Pos()), nil, true)
			} else {
				r.Report("C16.R2", FuncName(f), "refinement goes through the dispatcher", Violated, "the refinement calls an evaluator directly, bypassing the value canonicalisation", p.Pos(f.Pos()), nil, true)
			}
		}
	}

	// R3: Transformer() truth table and Transformers() filtering loop
	cons := named(a.FIConstraints.Type())
	if tf := p.FuncByName(cons.Obj().Name() + ".Transformer"); tf != nil {
		var bad []string
		for _, up := range []bool{false, true} {
			for _, lo := range []bool{false, true} {
				env := &EvalEnv{P: p}
				res, out := env.Eval(tf, []AV{{K: avPtr, Obj: newAObj(cons, map[string]AV{"Upper": avB(up), "Lower": avB(lo)})}}, 0)
				r.Evaluations++
				if out != "return" || len(res) != 1 || res[0].K != avBool {
					bad = append(bad, fmt.Sprintf("upper=%v lower=%v: %s %s", up, lo, out, env.Why))
				} else if res[0].B != (up || lo) {
					bad = append(bad, fmt.Sprintf("upper=%v lower=%v -> %v", up, lo, res[0].B))
				}
			}
		}
		if len(bad) == 0 {
			r.Report("C16.R3", FuncName(tf), "Transformer() == Upper || Lower", Discharged, "4 cells", p.Pos(tf.Pos()), nil, true)
		} else {
			r.Report("C16.R3", FuncName(tf), "Transformer() == Upper || Lower", Violated, "fields with a case constraint would not be listed as transformers: "+strings.Join(bad, "; "), p.Pos(tf.Pos()), nil, true)
		}
		if ts := p.FuncByName("FieldDescMap.Transformers"); ts != nil {
			okLoop := false
			for _, lp := range naturalLoops(ts) {
				callsPred, appends := false, false
				inLoop := map[*ssa.BasicBlock]bool{}
				for _, b := range lp.blocks {
					inLoop[b] = true
				}
				onlyPred := true
				for _, b := range lp.blocks {
					for _, in := range b.Instrs {
						if call, ok := in.(*ssa.Call); ok {
							if call.Call.StaticCallee() == tf {
								callsPred = true
							}
							if bi, ok := call.Call.Value.(*ssa.Builtin); ok && bi.Name() == "append" {
								appends = true
								// the only condition between the loop header and the append is the predicate itself
								for d := b.Idom(); d != nil && inLoop[d] && d != lp.header; d = d.Idom() {
									ifi, ok := d.Instrs[len(d.Instrs)-1].(*ssa.If)
									if !ok {
										continue
									}
									cond := ifi.Cond
									if u, ok := cond.(*ssa.UnOp); ok && u.Op == token.NOT {
										cond = u.X
									}
									if pc, ok := cond.(*ssa.Call); !ok || pc.Call.StaticCallee() != tf {
										onlyPred = false
									}
								}
							}
						}
					}
				}
				if callsPred && appends && onlyPred {
					okLoop = true
				}
			}
			if okLoop {
				r.Report("C16.R3", FuncName(ts), "filters all descriptors by Transformer()", Discharged, "", p.Pos(ts.Pos()), nil, true)
			} else {
				r.Report("C16.R3", FuncName(ts), "filters all descriptors by Transformer()", Violated, "the transformer list is not built by filtering every descriptor with Transformer() and nothing else: a descriptor with a case constraint that another condition keeps out of the list is never transformed on insertion (while search values still are)", p.Pos(ts.Pos()), nil, true)
			}
		}
	}

	checkTagTable(p, r, "C16.R4")

	// R5: every reference (call, or use as a function value) to the two mappings in the functions the schema's case
	// transforms reach (insertion side and search-value side)
	var r5roots []*ssa.Function
	for _, n := range []string{"Schema.transform", "Schema.prepare"} {
		if f := p.FuncByName(n); f != nil {
			r5roots = append(r5roots, f)
		}
	}
	scope := reachFrom(p, r5roots)
	for _, tr := range p.Funcs {
		if !inSod(p, tr) || !scope[tr] {
			continue
		}
		for _, b := range tr.Blocks {
			for _, in := range b.Instrs {
				var ref *ssa.Function
				if call, ok := in.(*ssa.Call); ok && classifyExternal(call.Call.StaticCallee()) == xToUpperLower {
					ref = call.Call.StaticCallee()
				} else {
					var ops []*ssa.Value
					for _, op := range in.Operands(ops) {
						if op == nil || *op == nil {
							continue
						}
						if f, ok := (*op).(*ssa.Function); ok && classifyExternal(f) == xToUpperLower {
							ref = f
						}
					}
				}
				if ref == nil || (ref.Name() != "ToUpper" && ref.Name() != "ToLower") {
					continue
				}
				want := "Upper"
				if ref.Name() == "ToLower" {
					want = "Lower"
				}
				guarded := false
				for d := b.Idom(); d != nil; d = d.Idom() {
					if ifi, ok := d.Instrs[len(d.Instrs)-1].(*ssa.If); ok {
						if _, f, _ := loadedField(ifi.Cond); f != nil && f.Name() == want && (d.Succs[0].Dominates(b) || d.Succs[0] == b) {
							guarded = true
						}
					}
				}
				construct := "strings.To" + want + " guarded by " + want
				if guarded {
					r.Report("C16.R5", ownerName(p, tr), construct, Discharged, "", p.Pos(in.Pos()), nil, true)
				} else {
					r.Report("C16.R5", ownerName(p, tr), construct, Violated, "a case mapping is applied without being guarded by its own constraint flag", p.Pos(in.Pos()), nil, true)
				}
			}
		}
	}
}

func init() { register("C16", checkC16) }

// checkTagTable: finite evaluation of fdFromType for each tag word.
func checkTagTable(p *Prog, r *Result, rule string) {
	fn := p.FuncByName("fdFromType")
	if fn == nil {
		r.Report(rule, "fdFromType", "tag table", Undecided, "tag parser not found", "", nil, false)
		return
	}
	a := p.A
	cons := named(a.FIConstraints.Type())
	keys := jsonKeys(cons) // json key -> kind
	var words []string
	for k := range keys {
		words = append(words, k)
	}
	single := append([]string(nil), words...)
	sort.Strings(single)
	words = append(words, "primary", "")
	sort.Strings(words)
	// ordered pairs: the words of a tag are independent of each other and of their order
	for _, w1 := range single {
		for _, w2 := range single {
			if w1 != w2 {
				words = append(words, w1+","+w2)
			}
		}
	}
	for _, w := range words {
		env := &EvalEnv{P: p}
		env.CallHook = func(callee *ssa.Function, args []AV) ([]AV, bool) {
			if callee != nil && callee.Object() != nil && callee.Object().Pkg() != nil && callee.Object().Pkg().Path() == "strings" && callee.Name() == "Split" {
				if args[0].K == avStr && len(args) > 1 && args[1].K == avStr && args[1].S == "," {
					var el []AV
					for _, part := range strings.Split(args[0].S, ",") {
						el = append(el, avS(part))
					}
					return []AV{{K: avSlice, Elems: el}}, true
				}
				return []AV{{K: avSlice, Elems: []AV{args[0]}}}, true
			}
			return nil, false
		}
		env.InvokeHook = func(recv AV, method string, args []AV) ([]AV, bool) {
			if method == "String" {
				return []AV{avS("string")}, true
			}
			return nil, false
		}
		res, out := env.Eval(fn, []AV{avS("F"), avS(w), {K: avIface, Dyn: "reflect.Type", Inner: &AV{K: avOpaque, S: "T"}}}, 0)
		r.Evaluations++
		construct := fmt.Sprintf("tag word %q", w)
		if strings.Contains(w, ",") {
			construct = fmt.Sprintf("tag words %q", w)
		}
		if out != "return" || len(res) != 1 || res[0].K != avStruct {
			r.Report(rule, FuncName(fn), construct, Undecided, "finite evaluation failed: "+out+" "+env.Why, p.Pos(fn.Pos()), nil, true)
			continue
		}
		// constraints struct inside the descriptor
		var cobj *AObj
		if s, ok := res[0].Obj.T.Underlying().(*types.Struct); ok {
			for i := 0; i < s.NumFields(); i++ {
				if named(s.Field(i).Type()) == cons {
					if v, ok := res[0].Obj.F[i]; ok && v.K == avStruct {
						cobj = v.Obj
					}
				}
			}
		}
		set := map[string]bool{}
		if cobj != nil {
			cs := cons.Underlying().(*types.Struct)
			for i := 0; i < cs.NumFields(); i++ {
				if v, ok := cobj.F[i]; ok && v.K == avBool && v.B {
					tag := reflectTag(cs.Tag(i), "json")
					set[strings.Split(tag, ",")[0]] = true
				}
			}
		}
		want := map[string]bool{}
		for _, part := range strings.Split(w, ",") {
			if _, isKey := keys[part]; isKey {
				want[part] = true
				if part == "unique" {
					want["index"] = true
				}
			}
		}
		if fmt.Sprint(sortedKeys(set)) == fmt.Sprint(sortedKeys(want)) {
			r.Report(rule, FuncName(fn), construct, Discharged, fmt.Sprintf("sets %v", sortedKeys(set)), p.Pos(fn.Pos()), nil, true)
		} else {
			r.Report(rule, FuncName(fn), construct, Violated, fmt.Sprintf("the tag word %q sets constraints %v, expected %v", w, sortedKeys(set), sortedKeys(want)), p.Pos(fn.Pos()), nil, true)
		}
	}
}

var _ = token.ADD
