package main

// Structural finders: when a private function a rule is about cannot be found under its current name
// (renamed by a refactoring), it is looked up by shape (receiver, signature, own effects). A finder that
// matches zero or several functions gives up (the rule then reports an unresolved anchor).

import (
	"go/types"
	"strings"
	"sync"

	"golang.org/x/tools/go/ssa"
)

var closureCache sync.Map

func closuresOf(p *Prog) *Closures {
	if v, ok := closureCache.Load(p); ok {
		return v.(*Closures)
	}
	c := computeClosures(p)
	closureCache.Store(p, c)
	return c
}

func recvIs(f *ssa.Function, n *types.Named) bool {
	return f.Signature.Recv() != nil && n != nil && named(f.Signature.Recv().Type()) == n
}

func resultTypes(f *ssa.Function) []string {
	var out []string
	r := f.Signature.Results()
	for i := 0; i < r.Len(); i++ {
		out = append(out, types.TypeString(r.At(i).Type(), func(pk *types.Package) string { return pk.Name() }))
	}
	return out
}

func paramTypes(f *ssa.Function) []string {
	var out []string
	r := f.Signature.Params()
	for i := 0; i < r.Len(); i++ {
		out = append(out, types.TypeString(r.At(i).Type(), func(pk *types.Package) string { return pk.Name() }))
	}
	return out
}

func sigIs(f *ssa.Function, params, results string) bool {
	return strings.Join(paramTypes(f), ",") == params && strings.Join(resultTypes(f), ",") == results
}

// unique returns the single top-level sod function satisfying pred.
func unique(p *Prog, pred func(f *ssa.Function) bool) *ssa.Function {
	var found *ssa.Function
	for _, f := range p.Funcs {
		if f.Parent() != nil || f.Synthetic != "" {
			continue
		}
		if pred(f) {
			if found != nil {
				return nil
			}
			found = f
		}
	}
	return found
}

var finders = map[string]func(p *Prog) *ssa.Function{
	"DB.schema": func(p *Prog) *ssa.Function {
		c := closuresOf(p)
		return unique(p, func(f *ssa.Function) bool {
			return recvIs(f, p.A.DB) && sigIs(f, "sod.Object", "*sod.Schema,error") && c.own[f].Has(ETblR)
		})
	},
	"DB.loadSchema": func(p *Prog) *ssa.Function {
		c := closuresOf(p)
		return unique(p, func(f *ssa.Function) bool {
			return recvIs(f, p.A.DB) && sigIs(f, "sod.Object", "*sod.Schema,error") && c.own[f].Has(ETblW)
		})
	},
	"DB.search": func(p *Prog) *ssa.Function {
		return unique(p, func(f *ssa.Function) bool {
			if !recvIs(f, p.A.DB) || !hasSearchSig(f) || strings.Join(resultTypes(f), ",") != "*sod.Search" || f.Object() == nil || f.Object().Exported() {
				return false
			}
			n := 0
			for _, b := range f.Blocks {
				for _, in := range b.Instrs {
					if call, ok := in.(*ssa.Call); ok {
						if g := call.Call.StaticCallee(); g != nil && inSod(p, g) && hasSearchSig(g) {
							n++
						}
					}
				}
			}
			return n >= 2
		})
	},
	"DB.searchAll": func(p *Prog) *ssa.Function {
		c := closuresOf(p)
		return unique(p, func(f *ssa.Function) bool {
			return recvIs(f, p.A.DB) && hasSearchSig(f) && strings.Join(resultTypes(f), ",") == "*sod.Search" && c.own[f].Has(EErrCasting)
		})
	},
	"Schema.control": func(p *Prog) *ssa.Function {
		c := closuresOf(p)
		return unique(p, func(f *ssa.Function) bool {
			return recvIs(f, p.A.Schema) && sigIs(f, "", "error") && c.own[f].Has(EErrCorrupted)
		})
	},
	"Schema.initialize": func(p *Prog) *ssa.Function {
		return unique(p, func(f *ssa.Function) bool {
			if !recvIs(f, p.A.Schema) {
				return false
			}
			for _, b := range f.Blocks {
				for _, in := range b.Instrs {
					if st, ok := in.(*ssa.Store); ok {
						if n, fld, _ := fieldOf(st.Addr); n == p.A.Schema && fld == p.A.SchDB {
							return true
						}
					}
				}
			}
			return false
		})
	},
	"Schema.filenameFromUUID": func(p *Prog) *ssa.Function {
		return unique(p, func(f *ssa.Function) bool {
			if !recvIs(f, p.A.Schema) || !sigIs(f, "string", "string") {
				return false
			}
			for _, b := range f.Blocks {
				for _, in := range b.Instrs {
					if fa, ok := in.(*ssa.FieldAddr); ok {
						if n, fld, _ := fieldOf(fa); n == p.A.Schema && fld == p.A.SchCompress {
							return true
						}
					}
				}
			}
			return false
		})
	},
	"Schema.assignIndex": func(p *Prog) *ssa.Function {
		return unique(p, func(f *ssa.Function) bool {
			return recvIs(f, p.A.Schema) && sigIs(f, "sod.Object,string,interface{}", "error")
		})
	},
	"uuidExt": func(p *Prog) *ssa.Function {
		// the (string) -> (string, string) function called by the directory lister
		c := closuresOf(p)
		var lister *ssa.Function
		for _, f := range p.Funcs {
			if f.Parent() == nil && c.own[f].Has(EFsReadDir) {
				lister = f
			}
		}
		if lister == nil {
			return nil
		}
		var found *ssa.Function
		for _, b := range lister.Blocks {
			for _, in := range b.Instrs {
				if call, ok := in.(*ssa.Call); ok {
					if g := call.Call.StaticCallee(); g != nil && inSod(p, g) && sigIs(g, "string", "string,string") {
						found = g
					}
				}
			}
		}
		return found
	},
	"tmpFilename": func(p *Prog) *ssa.Function {
		c := closuresOf(p)
		var found *ssa.Function
		for _, f := range p.Funcs {
			if f.Parent() != nil || !c.own[f].Has(EFsRename) {
				continue
			}
			for _, b := range f.Blocks {
				for _, in := range b.Instrs {
					if call, ok := in.(*ssa.Call); ok {
						if g := call.Call.StaticCallee(); g != nil && inSod(p, g) && sigIs(g, "string", "string") {
							found = g
						}
					}
				}
			}
		}
		return found
	},
	"writeReader": func(p *Prog) *ssa.Function {
		c := closuresOf(p)
		return unique(p, func(f *ssa.Function) bool { return c.own[f].Has(EFsRename) })
	},
	"newIndexedField": func(p *Prog) *ssa.Function {
		c := closuresOf(p)
		return unique(p, func(f *ssa.Function) bool {
			return f.Signature.Recv() == nil && sigIs(f, "interface{},uint64", "*sod."+p.A.IndexedField.Obj().Name()+",error") && c.own[f].Has(EErrKeyType)
		})
	},
	"fdFromType": func(p *Prog) *ssa.Function {
		return unique(p, func(f *ssa.Function) bool {
			return f.Signature.Recv() == nil && sigIs(f, "string,string,reflect.Type", "sod.FieldDescriptor")
		})
	},
	"cloneValue": func(p *Prog) *ssa.Function {
		return unique(p, func(f *ssa.Function) bool {
			if f.Signature.Recv() != nil || !sigIs(f, "interface{},interface{}", "") {
				return false
			}
			for _, b := range f.Blocks {
				for _, in := range b.Instrs {
					if call, ok := in.(*ssa.Call); ok && call.Call.StaticCallee() == f {
						return true
					}
				}
			}
			return false
		})
	},
	"FieldDescriptor.cast": func(p *Prog) *ssa.Function {
		return unique(p, func(f *ssa.Function) bool {
			n := named(recvType(f))
			return n != nil && n.Obj().Name() == "FieldDescriptor" && sigIs(f, "", "string") && f.Object() != nil && !f.Object().Exported()
		})
	},
	"FieldDescMap.Transformers": func(p *Prog) *ssa.Function {
		return unique(p, func(f *ssa.Function) bool {
			n := named(recvType(f))
			return n != nil && n.Obj().Name() == "FieldDescMap" && sigIs(f, "", "[]sod.FieldDescriptor")
		})
	},
	"Search.iterator": func(p *Prog) *ssa.Function {
		return unique(p, func(f *ssa.Function) bool {
			return recvIs(f, p.A.Search) && f.Object() != nil && !f.Object().Exported() && len(resultTypes(f)) == 2 && strings.HasPrefix(resultTypes(f)[0], "*sod.") && resultTypes(f)[1] == "error" && len(paramTypes(f)) == 0
		})
	},
	"Search.collect": func(p *Prog) *ssa.Function {
		return unique(p, func(f *ssa.Function) bool {
			return recvIs(f, p.A.Search) && f.Object() != nil && !f.Object().Exported() && sigIs(f, "", "[]sod.Object,error")
		})
	},
	"Search.one": func(p *Prog) *ssa.Function {
		return unique(p, func(f *ssa.Function) bool {
			return recvIs(f, p.A.Search) && f.Object() != nil && !f.Object().Exported() && sigIs(f, "", "sod.Object,error")
		})
	},
}

// typeMethodFinder resolves "<type>.<method>" for unexported methods of the index / store / iterator types by shape.
func typeMethodFinder(p *Prog, name string) *ssa.Function {
	a := p.A
	c := closuresOf(p)
	i := strings.Index(name, ".")
	if i < 0 {
		return nil
	}
	tn, mn := name[:i], name[i+1:]
	is := func(n *types.Named) bool { return n != nil && n.Obj().Name() == tn }
	switch {
	case is(a.ObjIndex):
		switch mn {
		case "satisfyAll":
			return unique(p, func(f *ssa.Function) bool {
				return recvIs(f, a.ObjIndex) && sigIs(f, "sod.Object", "error") && c.Of(f).Has(EErrUnique) && !c.Of(f).Has(EIdxWLive)
			})
		case "control":
			return unique(p, func(f *ssa.Function) bool {
				return recvIs(f, a.ObjIndex) && sigIs(f, "", "error") && f.Name() != "UnmarshalJSON"
			})
		case "search":
			return unique(p, func(f *ssa.Function) bool { return recvIs(f, a.ObjIndex) && hasSearchSig(f) })
		}
	case is(a.FieldIndex):
		switch mn {
		case "Satisfy":
			return unique(p, func(f *ssa.Function) bool { return recvIs(f, a.FieldIndex) && c.own[f].Has(EErrUnique) })
		case "Constrain":
			return unique(p, func(f *ssa.Function) bool {
				return recvIs(f, a.FieldIndex) && len(resultTypes(f)) == 1 && named(f.Signature.Results().At(0).Type()) == a.FieldIndex && len(paramTypes(f)) == 1
			})
		}
	case is(a.ObjectMap):
		if mn == "flush" {
			return unique(p, func(f *ssa.Function) bool { return recvIs(f, a.ObjectMap) && c.Of(f).Has(EFsWObj) })
		}
	case is(a.Iterator):
		switch mn {
		case "next":
			return unique(p, func(f *ssa.Function) bool { return recvIs(f, a.Iterator) && sigIs(f, "", "sod.Object,error") })
		case "reversed":
			return unique(p, func(f *ssa.Function) bool {
				return recvIs(f, a.Iterator) && len(paramTypes(f)) == 0 && len(resultTypes(f)) == 1 && named(f.Signature.Results().At(0).Type()) == a.Iterator
			})
		}
	case is(a.IndexedField):
		switch mn {
		case "evaluate":
			return unique(p, func(f *ssa.Function) bool {
				return recvIs(f, a.IndexedField) && len(paramTypes(f)) == 2 && paramTypes(f)[0] == "string" && strings.Join(resultTypes(f), ",") == "bool"
			})
		case "valueTypeString":
			return unique(p, func(f *ssa.Function) bool {
				return recvIs(f, a.IndexedField) && sigIs(f, "", "string") && f.Name() != "String"
			})
		case "valueTypeFromString":
			return unique(p, func(f *ssa.Function) bool {
				return recvIs(f, a.IndexedField) && len(paramTypes(f)) == 1 && paramTypes(f)[0] == "string"
			})
		}
	}
	if cons := named(a.FIConstraints.Type()); is(cons) {
		switch mn {
		case "transform":
			return unique(p, func(f *ssa.Function) bool { return recvIs(f, cons) && c.own[f].Has(ECase) })
		}
	}
	return nil
}
