package main

import (
	"fmt"
	"go/token"
	"go/types"
	"strings"
	"sync/atomic"

	"golang.org/x/tools/go/ssa"
)

// rangeOrigin classifies what a Range instruction iterates: "dirset" (result of a directory-listing call),
// "uuids" (the uuid->id map of the object index), "fields" (the Fields map of the object index), "table", or "".
func rangeOrigin(p *Prog, c *Closures, rg *ssa.Range) (string, ssa.Value) {
	a := p.A
	if n, f, _ := loadedField(rg.X); n != nil {
		switch {
		case n == a.ObjIndex && f == a.OIUuids:
			return "uuids", rg.X
		case n == a.ObjIndex && f == a.OIFields:
			return "fields", rg.X
		case n == a.DB && f == a.DBSchemas:
			return "table", rg.X
		}
	}
	v := rg.X
	if ld, ok := v.(*ssa.UnOp); ok {
		// loaded from a local: find the single store
		if al, ok := ld.X.(*ssa.Alloc); ok {
			if refs := al.Referrers(); refs != nil {
				for _, r := range *refs {
					if st, ok := r.(*ssa.Store); ok {
						v = st.Val
					}
				}
			}
		}
	}
	if ex, ok := v.(*ssa.Extract); ok {
		v = ex.Tuple
	}
	if call, ok := v.(*ssa.Call); ok {
		if f := call.Call.StaticCallee(); f != nil && inSod(p, f) && c.Of(f).Has(EFsReadDir) {
			return "dirset", rg.X
		}
	}
	if prm, ok := v.(*ssa.Parameter); ok {
		// a helper iterating over a set it was handed: look at what its callers pass
		fn := prm.Parent()
		idx := -1
		for i, q := range fn.Params {
			if q == prm {
				idx = i
			}
		}
		for _, g := range p.Funcs {
			for _, b := range g.Blocks {
				for _, in := range b.Instrs {
					if call, ok := in.(*ssa.Call); ok && call.Call.StaticCallee() == fn && idx >= 0 && idx < len(call.Call.Args) {
						if k := valueOrigin(p, c, call.Call.Args[idx]); k == "dirset" {
							return "dirset", rg.X
						}
					}
				}
			}
		}
	}
	if phi, ok := v.(*ssa.Phi); ok {
		for _, e := range phi.Edges {
			if ex, ok := e.(*ssa.Extract); ok {
				if call, ok := ex.Tuple.(*ssa.Call); ok {
					if f := call.Call.StaticCallee(); f != nil && inSod(p, f) && c.Of(f).Has(EFsReadDir) {
						return "dirset", rg.X
					}
				}
			}
		}
	}
	return "", nil
}

// valueOrigin: "dirset" if v is (a local holding) the result of a directory-listing call.
func valueOrigin(p *Prog, c *Closures, v ssa.Value) string {
	if ld, ok := v.(*ssa.UnOp); ok {
		if al, ok := ld.X.(*ssa.Alloc); ok {
			if refs := al.Referrers(); refs != nil {
				for _, r := range *refs {
					if st, ok := r.(*ssa.Store); ok {
						v = st.Val
					}
				}
			}
		}
	}
	if ex, ok := v.(*ssa.Extract); ok {
		v = ex.Tuple
	}
	if call, ok := v.(*ssa.Call); ok {
		if f := call.Call.StaticCallee(); f != nil && inSod(p, f) && c.Of(f).Has(EFsReadDir) {
			return "dirset"
		}
	}
	return ""
}

// loopOfRange finds the natural loop whose body consumes the iterator.
func loopOfRange(fn *ssa.Function, rg *ssa.Range) *natLoop {
	for _, lp := range naturalLoops(fn) {
		for _, b := range lp.blocks {
			for _, in := range b.Instrs {
				if nx, ok := in.(*ssa.Next); ok && nx.Iter == rg {
					l := lp
					return &l
				}
			}
		}
	}
	return nil
}

// ---- C11 ------------------------------------------------------------------------------

func checkC11(p *Prog, r *Result, tier string) {
	r.Rule("C11.R1", "both inclusions: the schema control has a loop over the directory set that can return ErrIndexCorrupted after looking the uuid up in the index, and a loop over the indexed uuids that can return ErrIndexCorrupted after looking it up in the directory set", 2)
	r.Rule("C11.R2", "internal consistency first: the index-level control runs (and succeeds) before the directory is listed; it is a loop over all field indexes that consults the ordering test and the size comparison of each", 2)
	r.Rule("C11.R6", "the schema control succeeds only through both inclusion loops: no path returns a nil error without having reached the directory-versus-index loop and the index-versus-directory loop (whatever the configuration predicates say)", 2)
	r.Rule("C11.R9", "Repair leaves no cached copy of what it drops: with caching on, every successful return of Repair on a path that un-indexed an entry also evicted from the cache (the cache of the collection is dropped, or the entry's copy is deleted)", 1)
	r.Rule("C11.R8", "the ordering test is complete: in its loop over the sorted list of a field index the positions read are induction variable + constant, the loop runs while `i < len(list) + constant`, and the two constants make the greatest position read the last one and the smallest the first", 1)
	r.Rule("C11.R7", "only membership divergence is repairable: the index-level control (ordering and size of every field index) never reports an error of the ErrIndexCorrupted class, because the loader publishes a schema under that class and Repair can only add and drop entries", 1)
	r.Rule("C11.R3", "a corrupted schema is still loaded: under errors.Is(err, ErrIndexCorrupted) the loader publishes the schema and returns it with the error; under any other error nothing is published", 2)
	r.Rule("C11.R4", "Repair never truncates or removes an object file or the tree and writes object files only by flushing the pending (accepted, not yet written) objects through the pending store before it lists the directory, which it always does when asynchronous writes are on; it indexes unindexed files only after a successful read of the file (or, with caching on, of its cached copy) and through the accepting (constraint-checking) insertion; it un-indexes entries absent from disk; its successful return is preceded by the directory listing", 5)
	r.Rule("C11.R5", "Control() iterates over the whole schema table and calls the schema control in every iteration", 1)
	r.NotDecided = []string{"'if and only if' at value level (that equal sets are never reported as different)", "search results after Repair", "that the uuid-shaped file filter matches exactly the object files (C18/C19)"}
	c := computeClosures(p)
	a := p.A
	ctl := p.FuncByName("Schema.control")
	if ctl == nil {
		r.Report("ANCHOR", "-", "Schema.control", Undecided, "schema control function not found", "", nil, false)
		return
	}

	// R1: loops and their lookups
	var dirLoop, idxLoop *natLoop
	var dirFn, idxFn *ssa.Function
	var dirSet ssa.Value
	for _, f := range calleesWithin(p, ctl, 1) {
		if f != ctl && !recvIs(f, a.Schema) {
			continue // only the control itself and schema helpers it was split into
		}
		for _, b := range f.Blocks {
			for _, in := range b.Instrs {
				if rg, ok := in.(*ssa.Range); ok {
					kind, v := rangeOrigin(p, c, rg)
					switch kind {
					case "dirset":
						dirLoop = loopOfRange(f, rg)
						dirSet = v
						dirFn = f
					case "uuids":
						idxLoop = loopOfRange(f, rg)
						idxFn = f
					}
				}
			}
		}
	}
	loopCanReport := func(lp *natLoop, lfn *ssa.Function, wantAccess func(ev *Event) bool, construct string) {
		if lp == nil {
			r.Report("C11.R1", FuncName(ctl), construct, Violated, "the schema control has no such loop: one inclusion of the index/directory comparison is missing", p.Pos(ctl.Pos()), nil, true)
			return
		}
		// the loop must be able to report under every configuration (cache / async valuation): a report that a
		// configuration predicate switches off is a divergence nobody hears about in that configuration
		seenRet := true
		blindVal := ""
		for _, val := range append([]Valuation{{}}, configVals...) {
			seenHere := false
			l := &effListener{p: p, r: r, root: ctl, val: val}
			l.onEvent = func(l *effListener, x *Explorer, st *State, ev *Event) {
				if st.trackIter && ev.Kind == EvAccess && wantAccess(ev) {
					st.User |= 1
				}
			}
			l.onReturn = func(l *effListener, x *Explorer, st *State, ret *ssa.Return, res []Fact) {
				if st.trackIter && st.iter.Has(EErrCorrupted) && st.User&1 != 0 {
					seenHere = true
				}
				// the control cannot succeed without having reached this loop (in loop mode a path that reaches the
				// header ends at the loop's exit: a return seen with tracking off never got there)
				if e, has := errResult(ctl, res); !st.trackIter && len(st.frames) == 1 && has && e != triNo {
					l.bad("C11.R6", FuncName(ctl), "success only after the "+construct, "the schema control can return success on a path that skips this inclusion loop: the divergence it looks for goes unreported (on load, and by Control)", l.p.Pos(ret.Pos()), x, st, ret)
				} else if st.trackIter || (has && e == triNo) {
					l.ok("C11.R6", FuncName(ctl), "success only after the "+construct, l.p.Pos(ret.Pos()))
				}
			}
			l.onEnd = func(l *effListener, x *Explorer, st *State, reason string) {
				l.ok("C11.R6", FuncName(ctl), "success only after the "+construct, "")
			}
			x := NewExplorer(p, c, ctl, val, l)
			x.LoopFn, x.LoopHeader = lfn, lp.header
			x.LoopBlocks = map[*ssa.BasicBlock]bool{}
			for _, b := range lp.blocks {
				x.LoopBlocks[b] = true
			}
			x.Mask = effs(EErrCorrupted)
			x.Run()
			for _, u := range x.Undecided {
				r.Report("ENGINE", FuncName(ctl), u, Undecided, u, "", nil, false)
			}
			if !seenHere {
				seenRet = false
				blindVal = val.String()
			}
		}
		// the miss edge must go straight to the corruption report: some branch inside the loop has a successor block
		// that loads the corruption sentinel and returns, and that block is reached directly from a branch on a
		// membership test (a map lookup or a boolean call), not through a further condition that could skip it
		direct := false
		for _, b := range lp.blocks {
			ifi, ok := b.Instrs[len(b.Instrs)-1].(*ssa.If)
			if !ok {
				continue
			}
			cond := ifi.Cond
			if u, ok := cond.(*ssa.UnOp); ok && u.Op == token.NOT {
				cond = u.X
			}
			if ex, ok := cond.(*ssa.Extract); ok {
				cond = ex.Tuple
			}
			isMembership := false
			switch cv := cond.(type) {
			case *ssa.Lookup:
				isMembership = true
			case *ssa.Call:
				// a boolean helper that itself looks a key up in a map (`isUUIDIndexed`), not any predicate
				if f := cv.Call.StaticCallee(); f != nil && inSod(p, f) && f.Signature.Results().Len() == 1 {
					if bt, ok := f.Signature.Results().At(0).Type().Underlying().(*types.Basic); ok && bt.Info()&types.IsBoolean != 0 {
						for _, g := range calleesWithin(p, f, 1) {
							for _, gb := range g.Blocks {
								for _, gi := range gb.Instrs {
									if _, ok := gi.(*ssa.Lookup); ok {
										isMembership = true
									}
								}
							}
						}
					}
				}
			}
			if !isMembership {
				continue
			}
			for _, sb := range b.Succs {
				hasSentinel, returns := false, false
				for _, in := range sb.Instrs {
					if ld, ok := in.(*ssa.UnOp); ok {
						if g, ok := ld.X.(*ssa.Global); ok && g.Object() == a.SentByName["ErrIndexCorrupted"] {
							hasSentinel = true
						}
					}
					if _, ok := in.(*ssa.Return); ok {
						returns = true
					}
				}
				if hasSentinel && returns {
					direct = true
				}
			}
		}
		if seenRet && !direct {
			r.Report("C11.R1", FuncName(ctl), construct, Violated, "a membership miss in this loop does not lead straight to the corruption report: a further condition sits between the miss and the report, so some divergences of this kind are tolerated silently", p.Pos(lp.header.Instrs[0].Pos()), nil, true)
		} else if seenRet {
			r.Report("C11.R1", FuncName(ctl), construct, Discharged, "", p.Pos(lp.header.Instrs[0].Pos()), nil, true)
		} else {
			r.Report("C11.R1", FuncName(ctl), construct, Violated, "no iteration of this loop can return ErrIndexCorrupted after the membership lookup"+map[bool]string{true: " under the configuration [" + blindVal + "]", false: ""}[blindVal != ""]+": a divergence in this direction goes unnoticed", p.Pos(lp.header.Instrs[0].Pos()), nil, true)
		}
	}
	loopCanReport(dirLoop, dirFn, func(ev *Event) bool {
		_, isLookup := ev.Instr.(*ssa.Lookup)
		return isLookup && ev.Struct == a.ObjIndex && ev.Field == a.OIUuids
	}, "loop over files: not indexed => ErrIndexCorrupted")
	// the index loop must look up the directory set (static) and be able to report
	idxLooksUp := false
	if idxLoop != nil && dirSet != nil {
		for _, b := range idxLoop.blocks {
			for _, in := range b.Instrs {
				if lk, ok := in.(*ssa.Lookup); ok && sameOrigin(lk.X, dirSet) {
					idxLooksUp = true
				}
			}
		}
	}
	if idxLoop != nil && !idxLooksUp {
		r.Report("C11.R1", FuncName(ctl), "loop over index: not on disk => ErrIndexCorrupted", Violated, "the loop over indexed uuids does not look them up in the directory set", p.Pos(ctl.Pos()), nil, true)
	} else {
		loopCanReport(idxLoop, idxFn, func(ev *Event) bool { return true }, "loop over index: not on disk => ErrIndexCorrupted")
	}

	// R2: index-level control precedes the directory listing
	exploreAll(p, c, []exploreJob{{ctl, Valuation{}}}, EffSet{}, r, func(j exploreJob) Listener {
		return &effListener{p: p, r: r, root: j.root, val: j.val, onEvent: func(l *effListener, x *Explorer, st *State, ev *Event) {
			switch ev.Kind {
			case EvCallRet:
				if ev.Callee != nil && ev.Callee.Signature.Recv() != nil && named(ev.Callee.Signature.Recv().Type()) == a.ObjIndex && len(st.frames) <= 3 {
					// a method of the object index returning only an error, proven nil later on this path
					if len(ev.Results) == 1 && ev.Results[0].Nil != triNo {
						st.User |= 1
					}
				}
			case EvEffect:
				if ev.Eff == EFsReadDir {
					if st.User&1 != 0 {
						l.ok("C11.R2", FuncName(ctl), "index control before directory listing", l.p.Pos(ev.Instr.Pos()))
					} else {
						l.bad("C11.R2", FuncName(ctl), "index control before directory listing", "the directory is listed on a path where the index-level control did not run", l.p.Pos(ev.Instr.Pos()), x, st, ev.Instr)
					}
				}
			}
		}}
	}, nil)
	if oic := p.FuncByName(a.ObjIndex.Obj().Name() + ".control"); oic != nil {
		n := 0
		for _, lp := range naturalLoops(oic) {
			boolCall, intCall, ranged := false, false, false
			for _, b := range lp.blocks {
				for _, in := range b.Instrs {
					if call, ok := in.(*ssa.Call); ok {
						if f := call.Call.StaticCallee(); f != nil && f.Signature.Recv() != nil && named(f.Signature.Recv().Type()) == a.FieldIndex && f.Signature.Results().Len() == 1 {
							switch t := f.Signature.Results().At(0).Type().Underlying().(type) {
							case *types.Basic:
								if t.Info()&types.IsBoolean != 0 {
									boolCall = true
								}
								if t.Info()&types.IsInteger != 0 {
									intCall = true
								}
							}
						}
					}
					if nx, ok := in.(*ssa.Next); ok {
						if rg, ok := nx.Iter.(*ssa.Range); ok {
							if k, _ := rangeOrigin(p, c, rg); k == "fields" {
								ranged = true
							}
						}
					}
				}
			}
			if ranged {
				n++
				if boolCall && intCall {
					r.Report("C11.R2", FuncName(oic), "per field: ordering test and size comparison", Discharged, "", p.Pos(oic.Pos()), nil, true)
				} else {
					r.Report("C11.R2", FuncName(oic), "per field: ordering test and size comparison", Violated, fmt.Sprintf("the loop over field indexes lacks the ordering test (%v) or the size comparison (%v)", boolCall, intCall), p.Pos(oic.Pos()), nil, true)
				}
			}
		}
		if n == 0 {
			r.Report("C11.R2", FuncName(oic), "per field: ordering test and size comparison", Violated, "index-level control does not iterate over the field indexes", p.Pos(oic.Pos()), nil, true)
		}
		// R7 (caller side): the schema control hands the verdict on as it is
		for _, f := range calleesWithin(p, ctl, 1) {
			for _, b := range f.Blocks {
				for _, in := range b.Instrs {
					call, ok := in.(*ssa.Call)
					if !ok || call.Call.StaticCallee() != oic {
						continue
					}
					// the failure region: blocks dominated by the non-nil successor of the test of this error
					bad := false
					var badAt ssa.Instruction
					for _, ev := range errorValuesOf(call) {
						if ev.Referrers() == nil {
							continue
						}
						for _, rf := range *ev.Referrers() {
							bo, ok := rf.(*ssa.BinOp)
							if !ok || (bo.Op != token.NEQ && bo.Op != token.EQL) || bo.Referrers() == nil {
								continue
							}
							for _, br := range *bo.Referrers() {
								ifi, ok := br.(*ssa.If)
								if !ok {
									continue
								}
								fail := ifi.Block().Succs[0]
								if bo.Op == token.EQL {
									fail = ifi.Block().Succs[1]
								}
								for _, fb := range f.Blocks {
									if fb != fail && !fail.Dominates(fb) {
										continue
									}
									for _, fi := range fb.Instrs {
										if ld, ok := fi.(*ssa.UnOp); ok {
											if g, ok := ld.X.(*ssa.Global); ok && g.Object() == a.SentByName["ErrIndexCorrupted"] && sentinelIsSource(ld) {
												bad, badAt = true, fi
											}
										}
									}
								}
							}
						}
					}
					if bad {
						r.Report("C11.R7", FuncName(f), "the index-level verdict is handed on as it is", Violated, "the failure of the index-level control is re-issued as an error of the ErrIndexCorrupted class: the loader then publishes an index that is unordered or of the wrong size, Repair cannot fix it, later calls work on it", p.Pos(badAt.Pos()), nil, true)
					} else {
						r.Report("C11.R7", FuncName(f), "the index-level verdict is handed on as it is", Discharged, "", p.Pos(in.Pos()), nil, true)
					}
				}
			}
		}
		// R7: its verdicts are not of the repairable class
		if c.Of(oic).Has(EErrCorrupted) {
			r.Report("C11.R7", FuncName(oic), "ordering / size failures are not of the corrupted-index class", Violated, "the index-level control reports ErrIndexCorrupted: the loader keeps (publishes) a schema under that verdict so that Repair can re-synchronise membership, but Repair only adds and drops entries; an index that is unordered or of the wrong size would be served to every later call (wrong results, and the index panics recorded as known findings become reachable)", p.Pos(oic.Pos()), nil, true)
		} else {
			r.Report("C11.R7", FuncName(oic), "ordering / size failures are not of the corrupted-index class", Discharged, "", p.Pos(oic.Pos()), nil, true)
		}
	} else {
		r.Report("C11.R2", "objIndex.control", "function", Undecided, "index-level control not found", "", nil, false)
	}

	checkOrderingVisitsAll(p, r, "C11.R8")

	// R3
	if ld := p.FuncByName("DB.loadSchema"); ld != nil {
		vals := []Valuation{{IsCorrupted: triYes}, {IsCorrupted: triNo}}
		exploreAll(p, c, jobsFor([]*ssa.Function{ld}, vals), effs(ETblW, EIsCorruptedQ), r, func(j exploreJob) Listener {
			return &effListener{p: p, r: r, root: j.root, val: j.val, onReturn: func(l *effListener, x *Explorer, st *State, ret *ssa.Return, res []Fact) {
				e, _ := errResult(l.root, res)
				fn := FuncName(ld)
				if e == triYes {
					if st.must.Has(ETblW) {
						l.ok("C11.R3", fn, "success publishes", l.p.Pos(ret.Pos()))
					} else {
						l.bad("C11.R3", fn, "success publishes", "the loader returns success without publishing the schema", l.p.Pos(ret.Pos()), x, st, ret)
					}
					return
				}
				if e != triNo {
					return
				}
				if l.val.IsCorrupted == triYes && st.must.Has(EIsCorruptedQ) {
					if st.must.Has(ETblW) && len(res) > 0 && res[0].Nil != triYes {
						l.ok("C11.R3", fn, "corrupted index: published and returned with the error", l.p.Pos(ret.Pos()))
					} else {
						l.bad("C11.R3", fn, "corrupted index: published and returned with the error", "a schema whose index is corrupted is not published / not returned: Repair could not run on it", l.p.Pos(ret.Pos()), x, st, ret)
					}
				} else {
					if st.may.Has(ETblW) {
						l.bad("C11.R3", fn, "other errors: nothing published", "the loader publishes a schema although loading failed with an error other than index corruption", l.p.Pos(ret.Pos()), x, st, ret)
					} else {
						l.ok("C11.R3", fn, "other errors: nothing published", l.p.Pos(ret.Pos()))
					}
				}
			}}
		}, nil)
	} else {
		r.Report("C11.R3", "DB.loadSchema", "function", Undecided, "schema loader not found", "", nil, false)
	}

	// R4
	if rep := p.FuncByName("DB.Repair"); rep != nil {
		var sawAccept, sawUnindex atomic.Bool
		acquire := p.FuncByName("DB.schema")
		exploreAll(p, c, jobsFor([]*ssa.Function{rep}, []Valuation{{Cache: triNo, Async: triNo}, {Cache: triYes, Async: triYes}}), effs(EOkObjRead, EFsReadDir, EOkAccept, ECallGetCache, EJsonDec, ECallFlushPend, ECallUnindex, EDelCache, ECallDelCache), r, func(j exploreJob) Listener {
			return &effListener{p: p, r: r, root: j.root, val: j.val,
				onEvent: func(l *effListener, x *Explorer, st *State, ev *Event) {
					if ev.Kind != EvEffect {
						return
					}
					fn := FuncName(st.top().fn)
					// the one legitimate object-file write of Repair: flushing the pending (accepted, not yet written)
					// objects through the pending store, before the directory is listed
					inFlush := false
					for _, fr := range st.frames {
						if rn := named(recvType(fr.fn)); rn != nil && (rn == a.ObjectMap || rn == a.ObjectStore) {
							inFlush = true
						}
					}
					// the directory listing that counts is Repair's own, not the one of the schema control when the
					// schema is lazily loaded by the schema acquisition
					inAcquire := false
					for _, fr := range st.frames {
						if fr.fn == acquire {
							inAcquire = true
						}
					}
					if ev.Eff == EFsReadDir && !inAcquire {
						st.User |= 8
					}
					flushing := inFlush && st.User&8 == 0
					switch ev.Eff {
					case EFsReadDir:
						if l.val.Async == triYes && !inAcquire {
							if st.must.Has(ECallFlushPend) {
								l.ok("C11.R4", FuncName(rep), "pending writes flushed before the directory is listed", l.p.Pos(ev.Instr.Pos()))
							} else {
								l.bad("C11.R4", FuncName(rep), "pending writes flushed before the directory is listed", "with asynchronous writes on, Repair lists the directory without having flushed the pending writes: an accepted object that has no file yet is taken for a deleted one and dropped from the index", l.p.Pos(ev.Instr.Pos()), x, st, ev.Instr)
							}
						}
					case EFsRename:
						if ev.Tags&TSchemaPath == 0 && !flushing {
							l.bad("C11.R4", fn, "no object file mutation: "+ev.Eff.String(), "Repair renames a file that is not the schema file", l.p.Pos(ev.Instr.Pos()), x, st, ev.Instr)
						}
					case EFsWObj:
						if !flushing {
							l.bad("C11.R4", fn, "no object file mutation: "+ev.Eff.String(), "Repair reaches a mutation of object files", l.p.Pos(ev.Instr.Pos()), x, st, ev.Instr)
						}
					case EFsRmObj, EFsRmTree, EFsRmOther:
						l.bad("C11.R4", fn, "no object file mutation: "+ev.Eff.String(), "Repair reaches a mutation of object files", l.p.Pos(ev.Instr.Pos()), x, st, ev.Instr)
					case EIdxWLive:
						if st.onStackRecv(a.ObjIndex, func(f *ssa.Function) bool { return c.Of(f).Has(EErrUnique) }) {
							sawAccept.Store(true)
							cached := (l.val.Cache == triYes || l.val.Async == triYes) && st.must.Has(ECallGetCache)
							if st.must.Has(EOkObjRead) || cached {
								l.ok("C11.R4", FuncName(rep), "re-index only after a successful file read, through the accepting insertion", l.p.Pos(ev.Instr.Pos()))
							} else {
								l.bad("C11.R4", FuncName(rep), "re-index only after a successful file read, through the accepting insertion", "Repair indexes an object on a path where its file was not read successfully", l.p.Pos(ev.Instr.Pos()), x, st, ev.Instr)
							}
						}
					case ECallUnindex:
						sawUnindex.Store(true)
					case EJsonDec:
						if st.onStack(rep) && len(st.frames) > 1 {
							if ev.Tags&TParamObj != 0 {
								l.bad("C11.R4", FuncName(rep), "each file is decoded into a new object", "Repair decodes object files into the caller's object, reused for every file: members missing from a file (omitempty) keep the values of the file read before, and the object is indexed with them", l.p.Pos(ev.Instr.Pos()), x, st, ev.Instr)
							} else {
								l.ok("C11.R4", FuncName(rep), "each file is decoded into a new object", l.p.Pos(ev.Instr.Pos()))
							}
						}
					}
				},
				onReturn: func(l *effListener, x *Explorer, st *State, ret *ssa.Return, res []Fact) {
					if e, _ := errResult(l.root, res); e == triNo {
						return
					}
					if l.val.Cache == triYes && st.must.Has(ECallUnindex) {
						if st.must.Has(EDelCache) || st.must.Has(ECallDelCache) {
							l.ok("C11.R9", FuncName(rep), "a dropped entry leaves no cached copy behind", l.p.Pos(ret.Pos()))
						} else {
							l.bad("C11.R9", FuncName(rep), "a dropped entry leaves no cached copy behind", "with caching on, Repair drops the index entry of an object whose file is gone and returns successfully without evicting anything from the cache: Exist and Get keep answering from the cached copy of an object that is neither on disk nor indexed (Count and All do not see it), and the answers differ from those of an uncached collection", l.p.Pos(ret.Pos()), x, st, ret)
						}
					}
					if st.must.Has(EFsReadDir) {
						l.ok("C11.R4", FuncName(rep), "success only after listing the directory", l.p.Pos(ret.Pos()))
					} else {
						l.bad("C11.R4", FuncName(rep), "success only after listing the directory", "Repair can return success without having listed the directory", l.p.Pos(ret.Pos()), x, st, ret)
					}
				}}
		}, func(x *Explorer) { x.AssumeStorePresent = true })
		if sawAccept.Load() {
			r.Report("C11.R4", FuncName(rep), "indexes unindexed files", Discharged, "", "", nil, true)
		} else {
			r.Report("C11.R4", FuncName(rep), "indexes unindexed files", Violated, "no path of Repair inserts into the live index through the accepting insertion", "", nil, true)
		}
		if sawUnindex.Load() {
			r.Report("C11.R4", FuncName(rep), "drops entries without file", Discharged, "", "", nil, true)
		} else {
			r.Report("C11.R4", FuncName(rep), "drops entries without file", Violated, "no path of Repair un-indexes an entry", "", nil, true)
		}
		r.Report("C11.R4", FuncName(rep), "no object file mutation", Discharged, "reported as violated per effect if any is reached", "", nil, true)
		// order of the two loops: stale entries are dropped before unindexed files are indexed (a stale entry may
		// hold a unique value that a new file needs)
		var accHdr, delHdr *ssa.BasicBlock
		accIdx, delIdx, curIdx := 0, 0, 0 // position inside the block (two helper calls in one block)
		classify := func(f *ssa.Function, pos func(lp natLoop) *ssa.BasicBlock) {
			for _, lp := range naturalLoops(f) {
				for _, b := range lp.blocks {
					for _, in := range b.Instrs {
						call, ok := in.(*ssa.Call)
						if !ok {
							continue
						}
						g := call.Call.StaticCallee()
						if g == nil || !inSod(p, g) {
							continue
						}
						cl := c.Of(g)
						switch {
						case cl.Has(EErrUnique) && cl.Has(EIdxWLive) && !cl.Has(EFsRObj):
							accHdr, accIdx = pos(lp), curIdx
						case cl.Has(EIdxWLive) && !cl.Has(EErrUnique) && !cl.Has(EFsRObj) && !cl.Has(ETblR) && p.IsIndexDelete(g):
							delHdr, delIdx = pos(lp), curIdx
						}
					}
				}
			}
		}
		classify(rep, func(lp natLoop) *ssa.BasicBlock { return lp.header })
		// a loop extracted into a helper counts at the position of the helper's call in Repair
		for _, b := range rep.Blocks {
			for ii, in := range b.Instrs {
				if call, ok := in.(*ssa.Call); ok {
					if g := call.Call.StaticCallee(); g != nil && g.Blocks != nil && inSod(p, g) && g != rep && len(naturalLoops(g)) > 0 {
						blk := b
						curIdx = ii + 1
						classify(g, func(lp natLoop) *ssa.BasicBlock { return blk })
						curIdx = 0
					}
				}
			}
		}
		switch {
		case accHdr == nil || delHdr == nil:
			r.Report("C11.R4", FuncName(rep), "stale entries dropped before files are indexed", Undecided, "the two loops of Repair were not both recognised", p.Pos(rep.Pos()), nil, true)
		case delHdr == accHdr && delIdx < accIdx, delHdr != accHdr && delHdr.Dominates(accHdr) && !accHdr.Dominates(delHdr):
			r.Report("C11.R4", FuncName(rep), "stale entries dropped before files are indexed", Discharged, "", p.Pos(rep.Pos()), nil, true)
		default:
			r.Report("C11.R4", FuncName(rep), "stale entries dropped before files are indexed", Violated, "Repair indexes unindexed files before it drops the entries whose file is gone: a stale entry holding a unique value vetoes the file that now carries it, Repair returns the uniqueness error and never converges", p.Pos(rep.Pos()), nil, true)
		}
	} else {
		r.Report("C11.R4", "DB.Repair", "function", Undecided, "Repair not found", "", nil, false)
	}

	// R5
	if cf := p.FuncByName("DB.Control"); cf != nil {
		found := false
		for _, b := range cf.Blocks {
			for _, in := range b.Instrs {
				if rg, ok := in.(*ssa.Range); ok {
					if k, _ := rangeOrigin(p, c, rg); k == "table" {
						if lp := loopOfRange(cf, rg); lp != nil {
							for _, lb := range lp.blocks {
								for _, li := range lb.Instrs {
									if call, ok := li.(*ssa.Call); ok && call.Call.StaticCallee() == ctl {
										found = true
									}
								}
							}
						}
					}
				}
			}
		}
		if found {
			r.Report("C11.R5", FuncName(cf), "control of every loaded schema", Discharged, "", p.Pos(cf.Pos()), nil, true)
		} else {
			r.Report("C11.R5", FuncName(cf), "control of every loaded schema", Violated, "Control() does not call the schema control inside a loop over the schema table", p.Pos(cf.Pos()), nil, true)
		}
	}
}

func sameOrigin(a, b ssa.Value) bool {
	if a == b {
		return true
	}
	la, ok1 := a.(*ssa.UnOp)
	lb, ok2 := b.(*ssa.UnOp)
	return ok1 && ok2 && la.X == lb.X
}

// onStackRecv: some frame's function is a method of type n satisfying pred.
func (st *State) onStackRecv(n *types.Named, pred func(*ssa.Function) bool) bool {
	for _, fr := range st.frames {
		if fr.fn.Signature.Recv() != nil && named(fr.fn.Signature.Recv().Type()) == n && pred(fr.fn) {
			return true
		}
	}
	return false
}

func init() { register("C11", checkC11) }

// ---- C17 ------------------------------------------------------------------------------

func checkC17(p *Prog, r *Result, tier string) {
	r.Rule("C17.R1", "MUST-BEFORE: in every handle entry point except Drop and Create (and in the flusher), every file mutation (write, remove, mkdir, rename) is preceded on its path by a successful schema acquisition", 4)
	r.Rule("C17.R2", "the structure check gates publication: the loader publishes a schema only after a successful control (or a corrupted-index verdict), and never when the struct changed", 1)
	r.Rule("C17.R6", "Create on an existing collection changes the runtime settings only: the fields of the stored (published) schema that determine the on-disk layout (Extension, Compress, Fields) are never written; such stores only ever hit the caller's own schema value", 0)
	r.Rule("C17.R7", "the stored descriptors are authoritative: a function that assigns the Fields of an existing schema value (not one it has just allocated) does so only under `Fields == nil`; an emptiness test would replace the stored (empty) descriptor map of a collection by the descriptors of the current struct and make the structure comparison vacuous", 1)
	checkFieldsNilGuard(p, r, "C17.R7")
	r.Rule("C17.R8", "switching settings does not disturb the running process: every successful return of Create that changed the cache / async settings of a stored schema dropped the cached objects of that collection (the cache is only maintained while the settings say to use it)", 1)
	r.Rule("C17.R3", "Create: settings are assigned and the schema file overwritten only after a successful compatibility check; a new collection's schema file is written only when none exists and published only after a successful control", 3)
	r.Rule("C17.R4", "compatibility is symmetric: both descriptor comparisons range over both maps, look each path up in the other map and use the same comparator both ways", 2)
	r.Rule("C17.R5", "settings are read safely: every dereference of the async settings pointer happens where the pointer is known to be non-nil (nil test or enabled-predicate on the same path)", 3)
	r.NotDecided = []string{"behaviour after a live settings switch beyond R5 (pending writes, duplicate flusher)", "byte identity of files (follows from R1 only for refused operations)"}
	c := computeClosures(p)
	a := p.A

	// R1
	var jobs []exploreJob
	fsMut := effs(EFsWObj, EFsWSchema, EFsWOther, EFsRmObj, EFsRmSchema, EFsRmOther, EFsRmTree, EFsMkdir, EFsRename)
	for _, f := range apiRoots(p) {
		if n := FuncName(f); n == "(*DB).Drop" || n == "(*DB).Create" {
			continue
		}
		if c.Of(f).Intersects(fsMut) {
			jobs = append(jobs, exploreJob{f, Valuation{}})
			r.Entries = append(r.Entries, FuncName(f))
		}
	}
	exploreAll(p, c, jobs, effs(EOkSchema), r, func(j exploreJob) Listener {
		return &effListener{p: p, r: r, root: j.root, val: j.val, onEvent: func(l *effListener, x *Explorer, st *State, ev *Event) {
			if ev.Kind != EvEffect || !fsMut.Has(ev.Eff) {
				return
			}
			fn := FuncName(st.top().fn)
			construct := ev.Eff.String()
			if st.must.Has(EOkSchema) {
				l.ok("C17.R1", fn, construct, l.p.Pos(ev.Instr.Pos()))
			} else {
				l.bad("C17.R1", fn, construct, "a file is mutated on a path where no schema was successfully acquired (an operation on a collection whose schema is refused would touch its files)", l.p.Pos(ev.Instr.Pos()), x, st, ev.Instr)
			}
		}}
	}, nil)

	// R2
	if ld := p.FuncByName("DB.loadSchema"); ld != nil {
		exploreAll(p, c, jobsFor([]*ssa.Function{ld}, []Valuation{{IsCorrupted: triYes}, {IsCorrupted: triNo}}), effs(EOkStruct, EIsCorruptedQ, EErrStructure), r, func(j exploreJob) Listener {
			return &effListener{p: p, r: r, root: j.root, val: j.val, onEvent: func(l *effListener, x *Explorer, st *State, ev *Event) {
				if ev.Kind != EvEffect || ev.Eff != ETblW {
					return
				}
				fn := FuncName(ld)
				if st.must.Has(EOkStruct) || (l.val.IsCorrupted == triYes && st.must.Has(EIsCorruptedQ)) {
					l.ok("C17.R2", fn, "publication gated by control", l.p.Pos(ev.Instr.Pos()))
				} else {
					l.bad("C17.R2", fn, "publication gated by control", "the loaded schema is published without a successful control (structure check) or a corrupted-index verdict", l.p.Pos(ev.Instr.Pos()), x, st, ev.Instr)
				}
			}}
		}, nil)
	}
	// inside the control the structure comparison comes first: no index-corruption verdict and no directory listing
	// on a path that has not passed it (otherwise the loader, which tolerates corruption, would publish a changed struct)
	if ctl := p.FuncByName("Schema.control"); ctl != nil {
		exploreAll(p, c, []exploreJob{{ctl, Valuation{}}}, effs(EOkCompat), r, func(j exploreJob) Listener {
			return &effListener{p: p, r: r, root: j.root, val: j.val, onEvent: func(l *effListener, x *Explorer, st *State, ev *Event) {
				if ev.Kind != EvEffect || (ev.Eff != EErrCorrupted && ev.Eff != EFsReadDir) {
					return
				}
				construct := "structure comparison before " + ev.Eff.String()
				if st.must.Has(EOkCompat) {
					l.ok("C17.R2", FuncName(ctl), construct, l.p.Pos(ev.Instr.Pos()))
				} else {
					l.bad("C17.R2", FuncName(ctl), construct, "the control reaches "+ev.Eff.String()+" on a path where the stored descriptors were not yet compared with the struct: a collection whose struct changed AND whose index is out of step is reported as merely corrupted, which the loader tolerates and caches, so every later operation runs on the changed struct", l.p.Pos(ev.Instr.Pos()), x, st, ev.Instr)
				}
			}}
		}, nil)
	}
	// control performs the structure comparison first: ERR(StructureChanged) reachable, and before index control
	if ctl := p.FuncByName("Schema.control"); ctl != nil {
		if c.Of(ctl).Has(EErrStructure) {
			r.Report("C17.R2", FuncName(ctl), "structure comparison present", Discharged, "", p.Pos(ctl.Pos()), nil, true)
		} else {
			r.Report("C17.R2", FuncName(ctl), "structure comparison present", Violated, "the schema control cannot report ErrStructureChanged", p.Pos(ctl.Pos()), nil, true)
		}
	}

	// R3
	if cr := p.FuncByName("DB.Create"); cr != nil {
		vals := []Valuation{{FileExists: triYes}, {FileExists: triNo}}
		exploreAll(p, c, jobsFor([]*ssa.Function{cr}, vals), effs(EOkCompat, EOkSchema, EOkStruct, ECallFlushPend, ECfgW, EDelCache, ECallDelCache), r, func(j exploreJob) Listener {
			return &effListener{p: p, r: r, root: j.root, val: j.val, onReturn: func(l *effListener, x *Explorer, st *State, ret *ssa.Return, res []Fact) {
				if e, _ := errResult(l.root, res); e == triNo || !st.must.Has(ECfgW) {
					return
				}
				if st.must.Has(EDelCache) || st.must.Has(ECallDelCache) {
					l.ok("C17.R8", FuncName(cr), "cache of the collection dropped when its settings change", l.p.Pos(ret.Pos()))
				} else {
					l.bad("C17.R8", FuncName(cr), "cache of the collection dropped when its settings change", "Create changes the cache / async settings of a stored schema and returns successfully without dropping the cached objects of that collection: while caching is off the cache is not maintained, so switching it on again later serves outdated objects and finds deleted ones", l.p.Pos(ret.Pos()), x, st, ret)
				}
			}, onEvent: func(l *effListener, x *Explorer, st *State, ev *Event) {
				if ev.Kind == EvAccess && ev.Write && ev.Struct == a.Schema && (ev.Field == a.SchCompress || ev.Field == a.SchExtension || ev.Field == a.SchFields) {
					if _, isStore := ev.Instr.(*ssa.Store); isStore {
						if ev.Tags&(TFresh|TDecoded) != 0 && ev.Tags&TFromTbl == 0 {
							l.ok("C17.R6", FuncName(cr), "layout fields written on the caller's schema value only", l.p.Pos(ev.Instr.Pos()))
						} else {
							l.bad("C17.R6", FuncName(cr), "layout fields written on the caller's schema value only", "Create changes "+ev.Field.Name()+" of the stored schema: the files already on disk were written under the old value (name suffix, encoding, descriptors) and nothing migrates them, they become unreadable", l.p.Pos(ev.Instr.Pos()), x, st, ev.Instr)
						}
					}
					return
				}
				if ev.Kind != EvEffect {
					return
				}
				fn := FuncName(cr)
				where := l.p.Pos(ev.Instr.Pos())
				switch ev.Eff {
				case ECfgW:
					if ev.Tags&(TFresh|TDecoded) != 0 {
						return // the caller's own schema value
					}
					if st.must.Has(ECallFlushPend) {
						l.ok("C17.R3", fn, "pending writes flushed before the settings change", where)
					} else {
						l.bad("C17.R3", fn, "pending writes flushed before the settings change", "Create changes the cache / async settings of the stored schema on a path where the pending asynchronous writes were not flushed first: when the new settings switch asynchronous writes off nobody writes them any more", where, x, st, ev.Instr)
					}
					if st.must.Has(EOkCompat) {
						l.ok("C17.R3", fn, "settings assigned after compatibility check", where)
					} else {
						l.bad("C17.R3", fn, "settings assigned after compatibility check", "cache/async settings of the stored schema are changed on a path without a successful compatibility check", where, x, st, ev.Instr)
					}
				case EFsWSchema:
					switch {
					case st.must.Has(EOkCompat):
						l.ok("C17.R3", fn, "schema file overwritten only after compatibility check", where)
					case !st.must.Has(EOkSchema) && l.val.FileExists == triNo:
						l.ok("C17.R3", fn, "new schema file written only when none exists", where)
					default:
						l.bad("C17.R3", fn, "schema file write", "Create writes the schema file without a successful compatibility check although a schema (file) exists", where, x, st, ev.Instr)
					}
				case ETblW:
					if len(st.frames) == 1 {
						if st.must.Has(EOkStruct) {
							l.ok("C17.R3", fn, "new schema published after control", where)
						} else {
							l.bad("C17.R3", fn, "new schema published after control", "Create publishes the new schema without a successful control", where, x, st, ev.Instr)
						}
					}
				}
			}}
		}, func(x *Explorer) { x.AssumeTblStable = false; x.AssumeStorePresent = true })
	}

	// R4
	for _, name := range []string{"FieldDescMap.CompatibleWith", "FieldDescMap.FieldsCompatibleWith"} {
		f := p.FuncByName(name)
		if f == nil {
			r.Report("C17.R4", name, "symmetric comparison", Undecided, "function not found", "", nil, false)
			continue
		}
		// direction summary: the pairs (i, j) of the function's own parameters (receiver first) such that the
		// function, or a helper it hands them to, ranges over parameter i and looks each key up in parameter j
		// comparing the two descriptors with a comparator
		dirs := directionSummary(p, f, 0, map[*ssa.Function]bool{})
		both := dirs[[2]int{0, 1}] != nil && dirs[[2]int{1, 0}] != nil
		// the comparator of the two directions is the same function (or the same function-typed value)
		sameCmp := both && dirs[[2]int{0, 1}].String() == dirs[[2]int{1, 0}].String()
		cl := c.Of(f)
		if both && sameCmp && cl.Has(EErrFieldDesc) && cl.Has(EErrUnkField) {
			r.Report("C17.R4", FuncName(f), "symmetric comparison", Discharged, "", p.Pos(f.Pos()), nil, true)
		} else {
			r.Report("C17.R4", FuncName(f), "symmetric comparison", Violated, fmt.Sprintf("descriptor comparison is not symmetric (ranges+lookups over both maps: %v, one comparator used both ways: %v, both sentinels: %v)", both, sameCmp, cl.Has(EErrFieldDesc) && cl.Has(EErrUnkField)), p.Pos(f.Pos()), nil, true)
		}
	}

	// R5
	var j5 []exploreJob
	for _, f := range apiRoots(p) {
		j5 = append(j5, exploreJob{f, Valuation{}})
	}
	for _, v := range []Valuation{{Cache: triNo, Async: triYes}, {Cache: triNo, Async: triNo}} {
		for _, n := range []string{"DB.InsertOrUpdate", "DB.Get", "DB.Delete"} {
			if f := p.FuncByName(n); f != nil {
				j5 = append(j5, exploreJob{f, v})
			}
		}
	}
	exploreAll(p, c, j5, EffSet{}, r, func(j exploreJob) Listener {
		return &effListener{p: p, r: r, root: j.root, val: j.val, onEvent: func(l *effListener, x *Explorer, st *State, ev *Event) {
			if ev.Kind != EvAccess || ev.Struct != a.Async || ev.Tags&(TFresh|TDecoded) != 0 {
				return
			}
			fn := FuncName(st.top().fn)
			construct := "deref settings pointer for " + ev.Field.Name()
			if ev.BaseNil == triNo {
				l.ok("C17.R5", fn, construct, l.p.Pos(ev.Instr.Pos()))
			} else {
				l.bad("C17.R5", fn, construct, "the async settings pointer is dereferenced where it is not known to be non-nil (Create may have switched async writes off: nil pointer dereference)", l.p.Pos(ev.Instr.Pos()), x, st, ev.Instr)
			}
		}}
	}, nil)
}

func init() { register("C17", checkC17) }

var _ = strings.Join

// cmpID identifies the comparator used by a one-direction check.
type cmpID struct{ s string }

func (c *cmpID) String() string {
	if c == nil {
		return ""
	}
	return c.s
}

// directionSummary: see C17.R4. A one-direction check in f is a range over (a value that is) parameter i whose
// loop looks the key up in parameter j; the comparator is the boolean call (method, or call through a function-typed
// parameter) made in the same function. Calls to sod helpers that are handed parameters of f contribute their own
// summary, mapped through the arguments (so m.h(target) and target.h(m) give both directions).
func directionSummary(p *Prog, f *ssa.Function, depth int, seen map[*ssa.Function]bool) map[[2]int]*cmpID {
	out := map[[2]int]*cmpID{}
	if depth > 3 || seen[f] || f.Blocks == nil {
		return out
	}
	seen[f] = true
	defer delete(seen, f)
	paramIdx := func(v ssa.Value) int {
		for i, prm := range f.Params {
			if ssa.Value(prm) == v {
				return i
			}
		}
		return -1
	}
	var ranged, looked []int
	var cmp *cmpID
	for _, b := range f.Blocks {
		for _, in := range b.Instrs {
			switch v := in.(type) {
			case *ssa.Range:
				if i := paramIdx(v.X); i >= 0 {
					ranged = append(ranged, i)
				}
			case *ssa.Lookup:
				if i := paramIdx(v.X); i >= 0 {
					looked = append(looked, i)
				}
			case *ssa.Call:
				sig := v.Call.Signature()
				if sig.Results().Len() == 1 {
					if bt, ok := sig.Results().At(0).Type().Underlying().(*types.Basic); ok && bt.Info()&types.IsBoolean != 0 {
						if g := v.Call.StaticCallee(); g != nil && g.Signature.Recv() != nil {
							cmp = &cmpID{g.String()}
						} else if g == nil && !v.Call.IsInvoke() {
							if i := paramIdx(v.Call.Value); i >= 0 {
								cmp = &cmpID{fmt.Sprintf("param#%d", i)}
							}
						}
					}
				}
				g := v.Call.StaticCallee()
				if g == nil || !inSod(p, g) || g == f {
					continue
				}
				sub := directionSummary(p, g, depth+1, seen)
				for pair, c := range sub {
					if pair[0] >= len(v.Call.Args) || pair[1] >= len(v.Call.Args) {
						continue
					}
					i, j := paramIdx(v.Call.Args[pair[0]]), paramIdx(v.Call.Args[pair[1]])
					if i < 0 || j < 0 {
						continue
					}
					cc := c
					if c != nil && strings.HasPrefix(c.s, "param#") {
						// the helper's comparator is one of its parameters: what this call passes there
						var k int
						fmt.Sscanf(c.s, "param#%d", &k)
						if k < len(v.Call.Args) {
							arg := v.Call.Args[k]
							if pi := paramIdx(arg); pi >= 0 {
								cc = &cmpID{fmt.Sprintf("param#%d", pi)}
							} else {
								cc = &cmpID{arg.String()}
							}
						}
					}
					out[[2]int{i, j}] = cc
				}
			}
		}
	}
	for _, i := range ranged {
		for _, j := range looked {
			if i != j {
				if cmp == nil {
					cmp = &cmpID{"none"}
				}
				out[[2]int{i, j}] = cmp
			}
		}
	}
	return out
}

// checkFieldsNilGuard: stores to Schema.Fields outside constructors and decoders sit on the true edge of Fields == nil.
func checkFieldsNilGuard(p *Prog, r *Result, rule string) {
	checkFieldNilGuard(p, r, rule, p.A.SchFields, "Fields", "the descriptors of an existing schema value are (re)assigned without a preceding `Fields == nil` test: for a schema read from disk with a non-nil (possibly empty) descriptor map the stored shape is replaced by the current struct's and the structure check compares the struct with itself")
}

// checkFieldNilGuard: stores to the given Schema field outside constructors and decoders sit on the true edge of `field == nil`.
func checkFieldNilGuard(p *Prog, r *Result, rule string, field *types.Var, fname, why string) {
	a := p.A
	n := 0
	for _, fn := range p.Funcs {
		if !inSod(p, fn) || decoderOf(fn) != nil {
			continue
		}
		for _, b := range fn.Blocks {
			for _, in := range b.Instrs {
				st, ok := in.(*ssa.Store)
				if !ok {
					continue
				}
				fa, ok := st.Addr.(*ssa.FieldAddr)
				if !ok {
					continue
				}
				if nn, f, _ := fieldOf(fa); nn != a.Schema || f != field {
					continue
				}
				if _, fresh := fa.X.(*ssa.Alloc); fresh {
					continue // a schema value under construction in this function
				}
				n++
				guarded := false
				for d := b.Idom(); d != nil; d = d.Idom() {
					ifi, ok := d.Instrs[len(d.Instrs)-1].(*ssa.If)
					if !ok {
						continue
					}
					bo, ok := ifi.Cond.(*ssa.BinOp)
					if !ok || (bo.Op != token.EQL && bo.Op != token.NEQ) {
						continue
					}
					// the edge on which the member is nil: true edge of ==, false edge of !=
					e := d.Succs[0]
					if bo.Op == token.NEQ {
						e = d.Succs[1]
					}
					if !(e == b || e.Dominates(b)) || len(e.Preds) != 1 {
						continue
					}
					for i, side := range []ssa.Value{bo.X, bo.Y} {
						other := []ssa.Value{bo.Y, bo.X}[i]
						if c, ok := other.(*ssa.Const); ok && c.IsNil() {
							if _, f, _ := loadedField(side); f == field {
								guarded = true
							}
						}
					}
				}
				if guarded {
					r.Report(rule, FuncName(fn), fname+" assigned under "+fname+" == nil", Discharged, "", p.Pos(in.Pos()), nil, true)
				} else {
					r.Report(rule, FuncName(fn), fname+" assigned under "+fname+" == nil", Violated, why, p.Pos(in.Pos()), nil, true)
				}
			}
		}
	}
	if n == 0 {
		r.Report(rule, "-", "no assignment of "+fname+" to an existing schema", Discharged, "", "", nil, true)
	}
}

// errorValuesOf: the error result of a call (single result or extract), and when it is kept in a cell the loads of that
// cell following the store in the same block.
func errorValuesOf(call *ssa.Call) []ssa.Value {
	var out []ssa.Value
	var errv ssa.Value
	if call.Call.Signature().Results().Len() == 1 && isErrorType(call.Type()) {
		errv = call
	} else if call.Referrers() != nil {
		for _, rf := range *call.Referrers() {
			if ex, ok := rf.(*ssa.Extract); ok && isErrorType(ex.Type()) {
				errv = ex
			}
		}
	}
	if errv == nil {
		return out
	}
	out = append(out, errv)
	if errv.Referrers() != nil {
		for _, rf := range *errv.Referrers() {
			st, ok := rf.(*ssa.Store)
			if !ok || st.Val != errv {
				continue
			}
			after := false
			for _, bi := range st.Block().Instrs {
				if bi == ssa.Instruction(st) {
					after = true
					continue
				}
				if !after {
					continue
				}
				if s2, ok := bi.(*ssa.Store); ok && s2.Addr == st.Addr {
					break
				}
				if ld, ok := bi.(*ssa.UnOp); ok && ld.Op == token.MUL && ld.X == st.Addr {
					out = append(out, ld)
				}
			}
		}
	}
	return out
}
