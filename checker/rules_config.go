package main

import (
	"fmt"
	"go/ast"
	"go/constant"
	"go/token"
	"go/types"
	"sort"
	"strings"

	"golang.org/x/tools/go/ssa"
)

// readersOfGlobal lists the sod functions that load a package-level variable.
func readersOfGlobal(p *Prog, name string) []string {
	set := map[string]bool{}
	for _, fn := range p.Funcs {
		for _, b := range fn.Blocks {
			for _, in := range b.Instrs {
				var ops []*ssa.Value
				for _, op := range in.Operands(ops) {
					if g, ok := (*op).(*ssa.Global); ok && g.Name() == name && g.Pkg == p.SPkg && fn.Name() != "init" {
						set[FuncName(fn)] = true
					}
				}
			}
		}
	}
	return sortedKeys(set)
}

// readersOfField lists the sod functions that read a struct field.
func readersOfField(p *Prog, n *types.Named, f *types.Var) []string {
	set := map[string]bool{}
	for _, fn := range p.Funcs {
		for _, b := range fn.Blocks {
			for _, in := range b.Instrs {
				switch v := in.(type) {
				case *ssa.FieldAddr:
					if nn, ff, _ := fieldOf(v); nn == n && ff == f {
						// a read if some referrer loads it
						if refs := v.Referrers(); refs != nil {
							for _, r := range *refs {
								if u, ok := r.(*ssa.UnOp); ok && u.Op == token.MUL {
									set[FuncName(fn)] = true
								}
							}
						}
					}
				case *ssa.Field:
					if nn, ff, _ := fieldOf(v); nn == n && ff == f {
						set[FuncName(fn)] = true
					}
				}
			}
		}
	}
	return sortedKeys(set)
}

// ---- C12 ------------------------------------------------------------------------------

func checkC12(p *Prog, r *Result, tier string) {
	r.Rule("C12.R1", "disk is consulted only after memory: with caching on, every stat or read of an object file that answers Exist / Get / GetByUUID is preceded on its path by a cache lookup call", 2)
	r.Rule("C12.R2", "indexed and scan search report the same error classes: both evaluators can report unknown operator, casting and unknown key type errors, neither drops the error of compiling the pattern, neither reaches a panic on the operator argument", 3)
	r.Rule("C12.R3", "one compression decision: the compressed suffix is read only by the file namer, the writer and the reader; the namer appends it exactly when Compress is set (finite evaluation)", 2)
	r.Rule("C12.R4", "one naming function: the database root and the lower-case-names switch are each read by exactly one function, through which every path is built", 2)
	r.Rule("C12.R5", "an empty constraint stays a constraint in both evaluators: wherever a function receives the constraining result set of an And refinement, the decision between constrained and unconstrained evaluation is a nil test of that parameter; its length is never compared with a constant to make that decision (And on an empty result must yield nothing whether or not the field is indexed)", 2)
	checkConstraintTests(p, computeClosures(p), r, "C12.R5")
	r.NotDecided = []string{"equality of observation traces across configurations", "integrity-check parity while writes are pending (excluded by the statement itself)"}
	c := computeClosures(p)
	a := p.A

	// R1
	roots := rootsByName(p, r, "DB.Exist", "DB.Get", "DB.GetByUUID")
	cacheVals := []Valuation{{Cache: triYes, Async: triNo}, {Cache: triNo, Async: triYes}, {Cache: triYes, Async: triYes}}
	exploreAll(p, c, jobsFor(roots, cacheVals), effs(ECallGetCache), r, func(j exploreJob) Listener {
		return &effListener{p: p, r: r, root: j.root, val: j.val, onEvent: func(l *effListener, x *Explorer, st *State, ev *Event) {
			if ev.Kind != EvEffect || (ev.Eff != EFsStatObj && ev.Eff != EFsRObj) {
				return
			}
			fn := FuncName(l.root)
			construct := ev.Eff.String() + " answers the call"
			if st.must.Has(ECallGetCache) {
				l.ok("C12.R1", fn, construct, l.p.Pos(ev.Instr.Pos()))
			} else {
				l.bad("C12.R1", fn, construct, "with caching/async on, the answer is taken from the object file without consulting the cache: an accepted object whose write is still pending is reported as absent, unlike with async off", l.p.Pos(ev.Instr.Pos()), x, st, ev.Instr)
			}
		}}
	}, nil)

	// R2: evaluators = callees of the private search dispatcher taking (field, operator string, value interface{})
	srch := p.FuncByName("DB.search")
	var evals []*ssa.Function
	if srch != nil {
		seen := map[*ssa.Function]bool{}
		for _, b := range srch.Blocks {
			for _, in := range b.Instrs {
				if call, ok := in.(*ssa.Call); ok {
					if f := call.Call.StaticCallee(); f != nil && inSod(p, f) && !seen[f] && hasSearchSig(f) {
						seen[f] = true
						evals = append(evals, f)
					}
				}
			}
		}
	}
	if len(evals) != 2 {
		r.Report("C12.R2", "DB.search", "two evaluators", Undecided, fmt.Sprintf("expected an indexed and a scan evaluator called from the search dispatcher, found %d", len(evals)), "", nil, false)
	} else {
		classes := []Eff{EErrOperator, EErrCasting, EErrKeyType}
		for _, e := range classes {
			var has []bool
			for _, f := range evals {
				has = append(has, c.Of(f).Has(e))
			}
			construct := "both evaluators can report " + e.String()
			if has[0] && has[1] {
				r.Report("C12.R2", "search evaluators", construct, Discharged, "", "", nil, true)
			} else {
				r.Report("C12.R2", "search evaluators", construct, Violated, fmt.Sprintf("%s: %s=%v, %s=%v — the same query gives different outcomes on indexed and unindexed fields", e, FuncName(evals[0]), has[0], FuncName(evals[1]), has[1]), "", nil, true)
			}
		}
	}
	// pattern compilation errors must reach an error result
	nre := 0
	for _, fn := range p.Funcs {
		for _, b := range fn.Blocks {
			for _, in := range b.Instrs {
				call, ok := in.(*ssa.Call)
				if !ok || classifyExternal(call.Call.StaticCallee()) != xRegexpCompile || call.Call.StaticCallee().Name() != "Compile" {
					continue
				}
				nre++
				okFlow := false
				if refs := call.Referrers(); refs != nil {
					for _, rf := range *refs {
						if ex, ok := rf.(*ssa.Extract); ok && ex.Index == 1 {
							okFlow = reachesErrorReturn(ex, 0)
						}
					}
				}
				construct := "pattern compile error is returned"
				if okFlow {
					r.Report("C12.R2", FuncName(fn), construct, Discharged, "", p.Pos(in.Pos()), nil, true)
				} else if why := callersPrevalidate(p, fn, func(g *ssa.Function) *ssa.BasicBlock {
					return compileValidated(p, g, 2)
				}); why != "" {
					r.Report("C12.R2", FuncName(fn), construct, Discharged, "vetted: "+why, p.Pos(in.Pos()), nil, true)
				} else {
					r.Report("C12.R2", FuncName(fn), construct, Violated, "the error of regexp.Compile on the search value does not flow into an error result: an invalid pattern is silently treated as 'no match' on this path but reported on the other", p.Pos(in.Pos()), nil, true)
				}
			}
		}
	}
	if nre == 0 {
		r.Report("C12.R2", "-", "pattern compile sites", Undecided, "no regexp.Compile site found", "", nil, false)
	}
	// every successful result of the scan evaluator is built after the arguments were validated: each call of the
	// Search constructor in an evaluator that owns an operator guard is dominated by the guard's first comparison
	for _, ef := range evals {
		head := guardHead(ef)
		if head == nil {
			continue
		}
		for _, b := range ef.Blocks {
			for _, in := range b.Instrs {
				call, ok := in.(*ssa.Call)
				if !ok {
					continue
				}
				g := call.Call.StaticCallee()
				if g == nil || !inSod(p, g) || g.Signature.Recv() != nil || g.Signature.Results().Len() != 1 || named(g.Signature.Results().At(0).Type()) != a.Search {
					continue
				}
				construct := "result built only after argument validation"
				if head == b || head.Dominates(b) {
					r.Report("C12.R2", FuncName(ef), construct, Discharged, "", p.Pos(in.Pos()), nil, true)
				} else {
					r.Report("C12.R2", FuncName(ef), construct, Violated, "the evaluator can return a successful result on a path that never validated the operator and the pattern: an invalid query succeeds here while the other evaluator reports an error", p.Pos(in.Pos()), nil, true)
				}
			}
		}
	}

	// the class check of the scan evaluator must not depend on the collection being non-empty: some comparison that
	// returns ErrCasting sits outside every loop of the evaluator
	for _, ef := range evals {
		if !c.own[ef].Has(EErrCasting) {
			continue
		}
		inLoop := map[*ssa.BasicBlock]bool{}
		for _, lp := range naturalLoops(ef) {
			for _, b := range lp.blocks {
				inLoop[b] = true
			}
		}
		outside, inside := false, false
		for _, b := range ef.Blocks {
			for _, in := range b.Instrs {
				if ld, ok := in.(*ssa.UnOp); ok {
					if g, ok := ld.X.(*ssa.Global); ok && g.Object() == a.SentByName["ErrCasting"] {
						// the block that reports the mismatch: is its deciding branch inside a loop?
						dec := b
						if len(b.Preds) == 1 {
							dec = b.Preds[0]
						}
						if inLoop[dec] {
							inside = true
						} else {
							outside = true
						}
					}
				}
			}
		}
		construct := "class check independent of the collection's content"
		switch {
		case outside:
			r.Report("C12.R2", FuncName(ef), construct, Discharged, "", p.Pos(ef.Pos()), nil, true)
		case inside:
			r.Report("C12.R2", FuncName(ef), construct, Violated, "the evaluator compares the class of the search value with the field's class only inside its loop over the objects: on an empty collection (or empty intermediate result) a mistyped value succeeds here while the other evaluator returns ErrCasting", p.Pos(ef.Pos()), nil, true)
		}
	}

	// the scan comparator's default arm (panic on an unknown operator) must be unreachable from the API:
	// every caller validates the operator against the same literal set first and reports the sentinel
	for _, fn := range p.Funcs {
		if fn.Parent() != nil {
			continue
		}
		hasOpPanic := false
		for _, b := range fn.Blocks {
			for _, in := range b.Instrs {
				if pn, ok := in.(*ssa.Panic); ok && panicsWithSentinel(p, pn, "ErrUnkownSearchOperator") {
					hasOpPanic = true
				}
			}
		}
		if !hasOpPanic {
			continue
		}
		lits := ownSwitchLiterals(fn)
		why := callersPrevalidate(p, fn, func(g *ssa.Function) *ssa.BasicBlock {
			gl := stringSwitchLiterals(g)
			if strings.Join(gl, " ") != strings.Join(lits, " ") || !c.Of(g).Has(EErrOperator) {
				return nil
			}
			return guardHead(g)
		})
		construct := "unknown operator is an error, not a panic"
		if why != "" {
			r.Report("C12.R2", FuncName(fn), construct, Discharged, "vetted: the panic arm is unreachable from the API: "+why+" (operator literals "+strings.Join(lits, " ")+")", p.Pos(fn.Pos()), nil, true)
		} else {
			r.Report("C12.R2", FuncName(fn), construct, Violated, "this function panics on an unknown search operator and a caller reaches it without validating the operator against the same set first: the unindexed search would crash where the indexed one returns ErrUnkownSearchOperator", p.Pos(fn.Pos()), nil, true)
		}
	}

	// R3
	readers := readersOfGlobal(p, "compressedExtension")
	allowed := map[string]bool{}
	for _, fn := range p.Funcs {
		cl := c.own[fn]
		name := FuncName(fn)
		// writer: opens for write; reader: opens for read + decodes; namer: method of Schema returning string
		if cl.Has(EFsWObj) || cl.Has(EFsWOther) || cl.Has(EFsWSchema) || cl.Has(EFsRObj) || cl.Has(EFsROther) {
			allowed[name] = true
		}
		if fn.Signature.Recv() != nil && named(fn.Signature.Recv().Type()) == a.Schema && fn.Signature.Results().Len() == 1 && types.TypeString(fn.Signature.Results().At(0).Type(), nil) == "string" {
			allowed[name] = true
		}
	}
	// a helper whose every caller is allowed is part of those functions (the suffix handling moved into a helper)
	byName := map[string]*ssa.Function{}
	for _, fn := range p.Funcs {
		byName[FuncName(fn)] = fn
	}
	for changed := true; changed; {
		changed = false
		for _, rd := range readers {
			fn := byName[rd]
			if allowed[rd] || fn == nil || fn.Parent() != nil || ast.IsExported(fn.Name()) {
				continue
			}
			callers := callersOf(fn)
			all := len(callers) > 0
			for _, g := range callers {
				if !allowed[FuncName(g)] {
					all = false
				}
			}
			if all {
				allowed[rd] = true
				changed = true
			}
		}
	}
	var extra []string
	for _, rd := range readers {
		if !allowed[rd] {
			extra = append(extra, rd)
		}
	}
	if len(readers) == 0 {
		r.Report("C12.R3", "-", "readers of the compressed suffix", Undecided, "global compressedExtension not found", "", nil, false)
	} else if len(extra) == 0 {
		r.Report("C12.R3", "compressedExtension", "read only by namer, writer, reader", Discharged, strings.Join(readers, ", "), "", nil, true)
	} else {
		r.Report("C12.R3", "compressedExtension", "read only by namer, writer, reader", Violated, "the compressed suffix is also consulted by: "+strings.Join(extra, ", "), "", nil, true)
	}
	checkNamer(p, r, "C12.R3")

	// R4
	for _, spec := range []struct{ what, construct string }{{"root", "DB.root read by one function"}, {"lower", "LowercaseNames read by one function"}} {
		var rd []string
		if spec.what == "root" {
			rd = readersOfField(p, a.DB, a.DBRoot)
			// Open constructs, Drop removes the tree
			var f []string
			for _, n := range rd {
				if n != "Open" && n != "(*DB).Drop" {
					f = append(f, n)
				}
			}
			rd = f
		} else {
			rd = readersOfGlobal(p, "LowercaseNames")
		}
		if len(rd) == 1 {
			r.Report("C12.R4", rd[0], spec.construct, Discharged, "", "", nil, true)
		} else {
			r.Report("C12.R4", "-", spec.construct, Violated, fmt.Sprintf("expected exactly one reader, found %v: paths could be built inconsistently", rd), "", nil, true)
		}
	}
}

func hasSearchSig(f *ssa.Function) bool {
	nstr, niface := 0, 0
	ps := f.Signature.Params()
	for i := 0; i < ps.Len(); i++ {
		t := ps.At(i).Type()
		if b, ok := t.Underlying().(*types.Basic); ok && b.Info()&types.IsString != 0 {
			nstr++
		}
		if it, ok := t.Underlying().(*types.Interface); ok && it.NumMethods() == 0 {
			niface++
		}
	}
	return nstr >= 2 && niface >= 1
}

// reachesErrorReturn: does v flow (through stores to named results / phis) into a return operand of type error?
func reachesErrorReturn(v ssa.Value, depth int) bool {
	if depth > 6 || v == nil {
		return false
	}
	refs := v.Referrers()
	if refs == nil {
		return false
	}
	for _, rf := range *refs {
		switch u := rf.(type) {
		case *ssa.Return:
			for _, res := range u.Results {
				if res == v && isErrorType(res.Type()) {
					return true
				}
			}
		case *ssa.Store:
			if fa, ok := u.Addr.(*ssa.FieldAddr); ok && u.Val == v {
				// stored into an error-typed field of a struct (the err of a returned Search)
				if _, f, _ := fieldOf(fa); f != nil && isErrorType(f.Type()) {
					return true
				}
			}
			if al, ok := u.Addr.(*ssa.Alloc); ok && u.Val == v {
				if ar := al.Referrers(); ar != nil {
					for _, r2 := range *ar {
						if ld, ok := r2.(*ssa.UnOp); ok && ld.Op == token.MUL && reachesErrorReturn(ld, depth+1) {
							return true
						}
					}
				}
			}
		case *ssa.Phi:
			if reachesErrorReturn(u, depth+1) {
				return true
			}
		}
	}
	return false
}

// checkNamer: finite evaluation of the file namer over Compress in {true,false}.
func checkNamer(p *Prog, r *Result, rule string) {
	a := p.A
	fn := p.FuncByName("Schema.filenameFromUUID")
	if fn == nil {
		r.Report(rule, "Schema.filenameFromUUID", "namer", Undecided, "file namer not found", "", nil, false)
		return
	}
	suffix := ""
	if g, ok := p.SPkg.Members["compressedExtension"].(*ssa.Global); ok {
		suffix = globalStringInit(p, g)
	}
	var bad []string
	for _, compress := range []bool{false, true} {
		env := &EvalEnv{P: p}
		env.CallHook = func(callee *ssa.Function, args []AV) ([]AV, bool) {
			if callee != nil && callee.Object() != nil && callee.Object().Pkg() != nil && callee.Object().Pkg().Path() == "fmt" && callee.Name() == "Sprintf" {
				// concatenate the variadic string arguments in order (format strings here are sequences of %s)
				out := ""
				if len(args) == 2 && args[1].K == avSlice {
					for _, el := range args[1].Elems {
						v := el
						if v.K == avIface && v.Inner != nil {
							v = *v.Inner
						}
						if v.K == avStr {
							out += v.S
						} else if v.K == avOpaque {
							out += "<" + v.S + ">"
						} else {
							return nil, false
						}
					}
					return []AV{avS(out)}, true
				}
			}
			return nil, false
		}
		obj := newAObj(a.Schema, map[string]AV{a.SchCompress.Name(): avB(compress), a.SchExtension.Name(): avS(".EXT")})
		// the suffix global is loaded as an opaque value named after the global
		res, out := env.Eval(fn, []AV{{K: avPtr, Obj: obj}, avS("UUID")}, 0)
		if out != "return" || len(res) != 1 || res[0].K != avStr {
			r.Report(rule, FuncName(fn), "namer appends the suffix iff Compress", Undecided, "finite evaluation failed: "+out+" "+env.Why, p.Pos(fn.Pos()), nil, true)
			return
		}
		want := "UUID.EXT"
		if compress {
			want += "<compressedExtension>"
		}
		if res[0].S != want {
			bad = append(bad, fmt.Sprintf("Compress=%v -> %q (want %q)", compress, res[0].S, want))
		}
		r.Evaluations++
	}
	_ = suffix
	if len(bad) == 0 {
		r.Report(rule, FuncName(fn), "namer appends the suffix iff Compress", Discharged, "file name = uuid + extension (+ compressed suffix iff Compress), 2 cells", p.Pos(fn.Pos()), nil, true)
	} else {
		r.Report(rule, FuncName(fn), "namer appends the suffix iff Compress", Violated, strings.Join(bad, "; "), p.Pos(fn.Pos()), nil, true)
	}
}

// globalStringInit finds the constant string stored into a package-level variable by the package initialiser.
func globalStringInit(p *Prog, g *ssa.Global) string {
	init := p.SPkg.Func("init")
	if init == nil {
		return ""
	}
	for _, b := range init.Blocks {
		for _, in := range b.Instrs {
			if st, ok := in.(*ssa.Store); ok && st.Addr == g {
				if s, ok := constString(st.Val); ok {
					return s
				}
			}
		}
	}
	return ""
}

func init() { register("C12", checkC12) }

// ---- C05 ------------------------------------------------------------------------------

func checkC05(p *Prog, r *Result, tier string) {
	r.Rule("C05.R1", "atomic replace: no successful return of a handle entry point (or flusher iteration) leaves a persistent file (object or schema) that was opened for writing without a subsequent rename: persistent files are replaced by write-to-temporary + rename, never truncated in place", 1)
	r.Rule("C05.R4", "the content is complete before the rename: the writer (and the compressor, when there is one) is closed on every path before the temporary file is renamed to its final name", 1)
	r.Rule("C05.R5", "a temporary file left behind by a crash is harmless: its name is in the same directory as the final file and is not taken for an object file by the discovery function (finite evaluation; shared with C18.R4)", 2)
	r.Rule("C05.R6", "a temporary file left behind by a crash never blocks a later write: every write-open of the package (they all belong to the write-to-temporary protocol, C05.R1) uses O_CREATE|O_TRUNC and without O_EXCL (or with os.Create), so a leftover of the same name is overwritten", 1)
	checkTmpOpenFlags(p, computeClosures(p), r, "C05.R6")
	r.Rule("C05.R2", "acknowledged => reflected (synchronous mode): shared with C04.R1 (commit before successful return) and C01.R1 (object written before successful return); re-evaluated here for the write entries", 2)
	r.Rule("C05.R3", "control can notice content divergence: the schema control reads object content (or index+object replacement is a single rename)", 1)
	r.NotDecided = []string{"enumeration of crash prefixes of every history (a runtime quantifier): only the three structural necessary conditions above are decided", "torn-write behaviour inside a single write system call"}
	c := computeClosures(p)

	// R1
	var jobs []exploreJob
	for _, f := range apiRoots(p) {
		if p.GoRoot[f] && (f.Parent() != nil || p.GoOnly[f]) {
			continue
		}
		cl := c.Of(f)
		if cl.Has(EFsWObj) || cl.Has(EFsWSchema) {
			jobs = append(jobs, exploreJob{f, Valuation{Cache: triNo, Async: triNo}})
			r.Entries = append(r.Entries, FuncName(f))
		}
	}
	exploreAll(p, c, jobs, effs(EUnrenamed, EFsWObj, EFsWSchema, EFsRename, EGzipWriter, ECloseIface, ECloseFile), r, func(j exploreJob) Listener {
		return &effListener{p: p, r: r, root: j.root, val: j.val,
			onEvent: func(l *effListener, x *Explorer, st *State, ev *Event) {
				switch {
				case ev.Kind == EvEffect && (ev.Eff == EFsWObj || ev.Eff == EFsWSchema):
					// remember the depth of the function that opened the file (low 8 bits) and the site
					st.User = uint64(len(st.frames))&0xff | (uint64(ev.Instr.Pos())<<8)&(1<<56-1)
				case ev.Kind == EvEffect && ev.Eff == EGzipWriter && st.User != 0:
					st.User |= 1 << 62
				case ev.Kind == EvEffect && ev.Eff == ECloseIface && st.User != 0:
					st.User |= 1 << 61
				case ev.Kind == EvEffect && ev.Eff == ECloseFile && st.User != 0:
					st.User |= 1 << 60
				case ev.Kind == EvEffect && ev.Eff == EFsRename && st.User != 0:
					fn := FuncName(st.top().fn)
					gz, ci, cf := st.User&(1<<62) != 0, st.User&(1<<61) != 0, st.User&(1<<60) != 0
					switch {
					case gz && !ci:
						l.bad("C05.R4", fn, "content complete before the rename", "a compressed file is renamed to its final name before the gzip writer was closed: the final name briefly (or, after a crash, for ever) holds only the gzip header", l.p.Pos(ev.Instr.Pos()), x, st, ev.Instr)
					case !ci && !cf:
						l.bad("C05.R4", fn, "content complete before the rename", "the temporary file is renamed to its final name before it was closed", l.p.Pos(ev.Instr.Pos()), x, st, ev.Instr)
					default:
						l.ok("C05.R4", fn, "content complete before the rename", l.p.Pos(ev.Instr.Pos()))
					}
				case ev.Kind == EvCallRet && st.User != 0 && uint64(len(st.frames)+1)&0xff == st.User&0xff:
					// the function that opened the persistent file returns
					errNil := triYes
					for i := 0; i < ev.Callee.Signature.Results().Len(); i++ {
						if isErrorType(ev.Callee.Signature.Results().At(i).Type()) && i < len(ev.Results) {
							errNil = ev.Results[i].Nil
						}
					}
					where := l.p.Pos(token.Pos((st.User & (1<<56 - 1)) >> 8))
					fn := FuncName(ev.Callee)
					if errNil != triNo {
						if st.may.Has(EUnrenamed) {
							l.bad("C05.R1", fn, "persistent file replaced atomically", "the function opens a persistent file (object or schema) for writing / truncation and can return success without renaming: the file is rewritten in place, a crash right after the open leaves it empty and unreadable", where, x, st, ev.Instr)
						} else {
							l.ok("C05.R1", fn, "persistent file replaced atomically", where)
						}
					}
					st.User = 0
				}
			}}
	}, nil)

	// R2
	ins := rootsByName(p, r, "DB.InsertOrUpdate", "DB.InsertOrUpdateMany")
	exploreAll(p, c, jobsFor(ins, []Valuation{{Cache: triNo, Async: triNo}, {Cache: triYes, Async: triNo}}), effs(EFsWObj, EDirty, EOkAccept), r, func(j exploreJob) Listener {
		return &effListener{p: p, r: r, root: j.root, val: j.val, onReturn: func(l *effListener, x *Explorer, st *State, ret *ssa.Return, res []Fact) {
			if e, _ := errResult(l.root, res); e == triNo || st.emptyInput() {
				return
			}
			if st.must.Has(EFsWObj) && !st.may.Has(EDirty) {
				l.ok("C05.R2", FuncName(l.root), "acknowledged write is on disk and committed", l.p.Pos(ret.Pos()))
			} else {
				l.bad("C05.R2", FuncName(l.root), "acknowledged write is on disk and committed", "a synchronous write is acknowledged before the object file is written and the schema committed", l.p.Pos(ret.Pos()), x, st, ret)
			}
		}}
	}, nil)

	// R5
	sub := NewResult("C05")
	checkDiscovery(p, sub, "C18.R4", "C05.R5")
	for _, o := range sub.Obligations() {
		if o.Rule == "C05.R5" {
			r.Report("C05.R5", o.Func, o.Construct, o.Status, o.Detail, o.Where, o.Trace, true)
		}
	}
	r.Evaluations += sub.Evaluations

	// R3
	if ctl := p.FuncByName("Schema.control"); ctl != nil {
		cl := c.Of(ctl)
		if cl.Has(EFsRObj) || cl.Has(EFsROther) {
			r.Report("C05.R3", FuncName(ctl), "control reads object content", Discharged, "", p.Pos(ctl.Pos()), nil, true)
		} else {
			r.Report("C05.R3", FuncName(ctl), "control reads object content", Violated, "the schema control only lists the directory: after a crash between 'object file rewritten' and 'schema committed' on an update, the index holds the object's old field values and no check can see it", p.Pos(ctl.Pos()), nil, true)
		}
	}
}

func init() { register("C05", checkC05) }

var _ = sort.Strings

// panicsWithSentinel: panic(<load of the named error sentinel>).
func panicsWithSentinel(p *Prog, pn *ssa.Panic, name string) bool {
	v := pn.X
	for {
		if mi, ok := v.(*ssa.MakeInterface); ok {
			v = mi.X
			continue
		}
		if ci, ok := v.(*ssa.ChangeInterface); ok {
			v = ci.X
			continue
		}
		break
	}
	if ld, ok := v.(*ssa.UnOp); ok {
		if g, ok := ld.X.(*ssa.Global); ok && g.Object() == p.A.SentByName[name] {
			return true
		}
	}
	return false
}

// ownSwitchLiterals: the sorted set of string constants a string parameter of fn is compared with (in fn itself).
func ownSwitchLiterals(fn *ssa.Function) []string {
	best := map[string]bool{}
	for _, prm := range fn.Params {
		if b, ok := prm.Type().Underlying().(*types.Basic); !ok || b.Info()&types.IsString == 0 {
			continue
		}
		set := map[string]bool{}
		if refs := prm.Referrers(); refs != nil {
			for _, rf := range *refs {
				if bo, ok := rf.(*ssa.BinOp); ok && bo.Op == token.EQL {
					if s, ok := constString(bo.Y); ok && bo.X == prm {
						set[s] = true
					}
					if s, ok := constString(bo.X); ok && bo.Y == prm {
						set[s] = true
					}
					// table-driven form: the parameter compared with an element of a literal array of strings
					for _, other := range []ssa.Value{bo.X, bo.Y} {
						if other == ssa.Value(prm) {
							continue
						}
						for _, lit := range arrayLiteralStrings(other) {
							set[lit] = true
						}
					}
				}
			}
		}
		if len(set) > len(best) {
			best = set
		}
	}
	return sortedKeys(best)
}

// switchOwner: the function that holds the string switch on one of fn's string parameters: fn itself, or a
// helper (up to two calls away) that fn hands such a parameter to. Returns the owner and, when the switch is in
// a helper, the call instruction in fn that leads to it.
func switchOwner(fn *ssa.Function, depth int) (*ssa.Function, ssa.Instruction) {
	if fn == nil {
		return nil, nil
	}
	if len(ownSwitchLiterals(fn)) > 0 {
		return fn, nil
	}
	if depth <= 0 {
		return nil, nil
	}
	for _, b := range fn.Blocks {
		for _, in := range b.Instrs {
			call, ok := in.(*ssa.Call)
			if !ok {
				continue
			}
			g := call.Call.StaticCallee()
			if g == nil || g.Blocks == nil || g == fn {
				continue
			}
			passes := false
			for _, a := range call.Call.Args {
				if pr, ok := a.(*ssa.Parameter); ok {
					if bt, ok := pr.Type().Underlying().(*types.Basic); ok && bt.Info()&types.IsString != 0 {
						passes = true
					}
				}
			}
			if !passes {
				continue
			}
			if owner, _ := switchOwner(g, depth-1); owner != nil {
				return owner, in
			}
		}
	}
	return nil, nil
}

// stringSwitchLiterals: literals of the switch owned by fn or by a helper it delegates to.
func stringSwitchLiterals(fn *ssa.Function) []string {
	owner, _ := switchOwner(fn, 2)
	if owner == nil {
		return nil
	}
	return ownSwitchLiterals(owner)
}

// guardHead: the block of fn where the string switch starts: its first comparison, or the call of the helper that holds it.
func guardHead(fn *ssa.Function) *ssa.BasicBlock {
	owner, via := switchOwner(fn, 2)
	if owner == nil {
		return nil
	}
	if via != nil {
		return via.Block()
	}
	for _, b := range fn.DomPreorder() {
		for _, in := range b.Instrs {
			if bo, ok := in.(*ssa.BinOp); ok && bo.Op == token.EQL {
				if _, isP := bo.X.(*ssa.Parameter); isP {
					if _, ok := constString(bo.Y); ok {
						return b
					}
				}
			}
		}
	}
	return nil
}

// compileValidated: the block of g in which a search pattern is compiled and the error reported: a regexp.Compile
// in g whose error reaches g's error result / the Search's error, or a call of a helper that does so and whose own
// error result is reported by g.
func compileValidated(p *Prog, g *ssa.Function, depth int) *ssa.BasicBlock {
	for _, gb := range g.Blocks {
		for _, gi := range gb.Instrs {
			gc, ok := gi.(*ssa.Call)
			if !ok {
				continue
			}
			callee := gc.Call.StaticCallee()
			if classifyExternal(callee) == xRegexpCompile {
				if refs := gc.Referrers(); refs != nil {
					for _, rf := range *refs {
						if ex, ok := rf.(*ssa.Extract); ok && ex.Index == 1 && reachesErrorReturn(ex, 0) {
							return gb
						}
					}
				}
			} else if depth > 0 && callee != nil && callee.Blocks != nil && inSod(p, callee) && callee != g {
				if compileValidated(p, callee, depth-1) != nil {
					// the helper's error must be reported by g
					res := callee.Signature.Results()
					if res.Len() == 1 && isErrorType(res.At(0).Type()) && reachesErrorReturn(gc, 0) {
						return gb
					}
					if refs := gc.Referrers(); refs != nil {
						for _, rf := range *refs {
							if ex, ok := rf.(*ssa.Extract); ok && ex.Index < res.Len() && isErrorType(res.At(ex.Index).Type()) && reachesErrorReturn(ex, 0) {
								return gb
							}
						}
					}
				}
			}
		}
	}
	return nil
}

// callersPrevalidate: every sod (non-test) caller g of fn has a validation block (given by find) from which the call
// to fn is reachable but which is not reachable from the call (validation happens first). Returns a reason or "".
func callersPrevalidate(p *Prog, fn *ssa.Function, find func(g *ssa.Function) *ssa.BasicBlock) string {
	return callersPrevalidateDepth(p, fn, find, 3)
}

// a caller that does not validate itself is accepted when every one of its own callers does (the construct moved into
// a helper of the function that used to contain it)
func callersPrevalidateDepth(p *Prog, fn *ssa.Function, find func(g *ssa.Function) *ssa.BasicBlock, depth int) string {
	var callers []string
	for _, g := range p.Funcs {
		for _, gb := range g.Blocks {
			for _, gi := range gb.Instrs {
				ci, ok := gi.(ssa.CallInstruction)
				if !ok || ci.Common().StaticCallee() != fn {
					continue
				}
				if g == fn {
					continue
				}
				vb := find(g)
				if vb == nil {
					if depth > 0 {
						if why := callersPrevalidateDepth(p, g, find, depth-1); why != "" && why != "no caller in the package" {
							callers = append(callers, FuncName(g)+" <- "+why)
							continue
						}
					}
					return ""
				}
				if !blockReaches(vb, gb) || blockReaches(gb, vb) {
					return ""
				}
				callers = append(callers, FuncName(g))
			}
		}
	}
	if len(callers) == 0 {
		return "no caller in the package"
	}
	sort.Strings(callers)
	return "every caller (" + strings.Join(callers, ", ") + ") validates before calling"
}

func blockReaches(from, to *ssa.BasicBlock) bool {
	seen := map[*ssa.BasicBlock]bool{}
	stack := []*ssa.BasicBlock{from}
	for len(stack) > 0 {
		b := stack[len(stack)-1]
		stack = stack[:len(stack)-1]
		if seen[b] {
			continue
		}
		seen[b] = true
		for _, s := range b.Succs {
			if s == to {
				return true
			}
			stack = append(stack, s)
		}
	}
	return false
}

// checkTmpOpenFlags: the writer of the write-to-temporary + rename protocol must survive a stale temporary.
func checkTmpOpenFlags(p *Prog, c *Closures, r *Result, rule string) {
	n := 0
	for _, fn := range p.Funcs {
		// every write-open in the package belongs to the write-to-temporary protocol (C05.R1 decides that)
		for _, b := range fn.Blocks {
			for _, in := range b.Instrs {
				call, ok := in.(*ssa.Call)
				if !ok {
					continue
				}
				switch classifyExternal(call.Call.StaticCallee()) {
				case xFsCreate:
					n++
					r.Report(rule, FuncName(fn), "open flags of the temporary file", Discharged, "os.Create truncates", p.Pos(in.Pos()), nil, true)
				case xFsOpenFile:
					if len(call.Call.Args) < 2 || !openFlagWrites(call.Call.Args[1]) {
						continue
					}
					n++
					cst, ok := call.Call.Args[1].(*ssa.Const)
					if !ok || cst.Value == nil {
						r.Report(rule, FuncName(fn), "open flags of the temporary file", Undecided, "the open flags are not a constant", p.Pos(in.Pos()), nil, true)
						continue
					}
					fl, _ := constant.Int64Val(cst.Value)
					const oCREATE, oEXCL, oTRUNC = 0x40, 0x80, 0x200
					switch {
					case fl&oEXCL != 0:
						r.Report(rule, FuncName(fn), "open flags of the temporary file", Violated, "the temporary file is opened with O_EXCL: the leftover of a write interrupted by a crash makes every later write of that file (and so Repair's commit) fail with 'file exists'", p.Pos(in.Pos()), nil, true)
					case fl&oCREATE == 0 || fl&oTRUNC == 0:
						r.Report(rule, FuncName(fn), "open flags of the temporary file", Violated, "the temporary file is not opened with O_CREATE|O_TRUNC: a longer leftover of an interrupted write would survive as a tail of the new content", p.Pos(in.Pos()), nil, true)
					default:
						r.Report(rule, FuncName(fn), "open flags of the temporary file", Discharged, "", p.Pos(in.Pos()), nil, true)
					}
				}
			}
		}
	}
	if n == 0 {
		r.Report(rule, "-", "open flags of the temporary file", Violated, "no function opens a file for writing", "", nil, true)
	}
}

// checkConstraintTests: functions that take the constraining entry set ([]*indexedField parameter) and decide on it.
func checkConstraintTests(p *Prog, c *Closures, r *Result, rule string) {
	a := p.A
	// constraint parameters: the []*indexedField parameters of the evaluators (functions that can report an unknown
	// operator), and the parameters of helpers that are handed such a parameter unchanged
	isEntrySet := func(t types.Type) bool {
		sl, ok := t.Underlying().(*types.Slice)
		return ok && named(sl.Elem()) == a.IndexedField
	}
	set := map[*ssa.Parameter]bool{}
	var work []*ssa.Parameter
	for _, fn := range p.Funcs {
		if fn.Parent() != nil || !c.Of(fn).Has(EErrOperator) {
			continue
		}
		for _, prm := range fn.Params {
			if isEntrySet(prm.Type()) {
				set[prm] = true
				work = append(work, prm)
			}
		}
	}
	for len(work) > 0 {
		prm := work[len(work)-1]
		work = work[:len(work)-1]
		if prm.Referrers() == nil {
			continue
		}
		for _, rf := range *prm.Referrers() {
			call, ok := rf.(ssa.CallInstruction)
			if !ok {
				continue
			}
			g := call.Common().StaticCallee()
			if g == nil || g.Blocks == nil || !inSod(p, g) {
				continue
			}
			for i, arg := range call.Common().Args {
				if arg == ssa.Value(prm) && i < len(g.Params) && !set[g.Params[i]] {
					set[g.Params[i]] = true
					work = append(work, g.Params[i])
				}
			}
		}
	}
	for _, fn := range p.Funcs {
		for _, prm := range fn.Params {
			if !set[prm] {
				continue
			}
			refs := prm.Referrers()
			if refs == nil {
				continue
			}
			nilTests, lenTests := 0, 0
			var where ssa.Instruction
			for _, rf := range *refs {
				switch u := rf.(type) {
				case *ssa.BinOp:
					if u.Op == token.EQL || u.Op == token.NEQ {
						if c, ok := u.Y.(*ssa.Const); ok && c.IsNil() {
							nilTests++
						}
						if c, ok := u.X.(*ssa.Const); ok && c.IsNil() {
							nilTests++
						}
					}
				case *ssa.Call:
					if bi, ok := u.Call.Value.(*ssa.Builtin); ok && bi.Name() == "len" && u.Referrers() != nil {
						for _, lr := range *u.Referrers() {
							if bo, ok := lr.(*ssa.BinOp); ok {
								_, cx := bo.X.(*ssa.Const)
								_, cy := bo.Y.(*ssa.Const)
								if cx || cy {
									lenTests++
									where = bo
								}
							}
						}
					}
				}
			}
			if nilTests == 0 && lenTests == 0 {
				continue // only passes it on / iterates
			}
			construct := "constraint parameter decided by a nil test"
			if lenTests > 0 {
				r.Report(rule, FuncName(fn), construct, Violated, "the length of the constraining set is compared with a constant: an empty (non-nil) constraint, i.e. And on an empty result, would be evaluated as if there were no constraint", p.Pos(where.Pos()), nil, true)
			} else {
				r.Report(rule, FuncName(fn), construct, Discharged, "", p.Pos(fn.Pos()), nil, true)
			}
		}
	}
}

// arrayLiteralStrings: when v is an element loaded from a local array (or slice of it) that was filled with string
// constants only, those constants.
func arrayLiteralStrings(v ssa.Value) []string {
	var base ssa.Value
	if ix, ok := v.(*ssa.Index); ok {
		// element of an array value: the array is a load of the local array
		l0, ok := ix.X.(*ssa.UnOp)
		if !ok || l0.Op != token.MUL {
			return nil
		}
		base = l0.X
	} else {
		ld, ok := v.(*ssa.UnOp)
		if !ok || ld.Op != token.MUL {
			return nil
		}
		ia, ok := ld.X.(*ssa.IndexAddr)
		if !ok {
			return nil
		}
		base = ia.X
	}
	if sl, ok := base.(*ssa.Slice); ok {
		base = sl.X
	}
	al, ok := base.(*ssa.Alloc)
	if !ok || al.Referrers() == nil {
		return nil
	}
	// ranging over an array literal goes through a copy of the array: follow the whole-array store to its source
	for hops := 0; hops < 3; hops++ {
		var src *ssa.Alloc
		for _, rf := range *al.Referrers() {
			if st, ok := rf.(*ssa.Store); ok && st.Addr == ssa.Value(al) {
				if l2, ok := st.Val.(*ssa.UnOp); ok && l2.Op == token.MUL {
					if a2, ok := l2.X.(*ssa.Alloc); ok {
						src = a2
					}
				}
			}
		}
		if src == nil || src.Referrers() == nil {
			break
		}
		al = src
	}
	var out []string
	for _, rf := range *al.Referrers() {
		ea, ok := rf.(*ssa.IndexAddr)
		if !ok || ea.Referrers() == nil {
			continue
		}
		for _, r2 := range *ea.Referrers() {
			if st, ok := r2.(*ssa.Store); ok && st.Addr == ssa.Value(ea) {
				s, ok := constString(st.Val)
				if !ok {
					return nil
				}
				out = append(out, s)
			}
		}
	}
	return out
}
