package main

import (
	"fmt"
	"go/token"

	"golang.org/x/tools/go/ssa"
)

// isSentinelLoad: v is a load of the named error sentinel.
func isSentinelLoad(p *Prog, v ssa.Value, name string) bool {
	for {
		switch u := v.(type) {
		case *ssa.ChangeInterface:
			v = u.X
			continue
		case *ssa.MakeInterface:
			v = u.X
			continue
		}
		break
	}
	u, ok := v.(*ssa.UnOp)
	if !ok || u.Op != token.MUL {
		return false
	}
	g, ok := u.X.(*ssa.Global)
	if !ok {
		return false
	}
	for gv, n := range p.A.Sentinels {
		if n == name && g.Object() == gv {
			return true
		}
	}
	return false
}

// checkBulkDeleteLoop: the loop that drains the iterator and deletes what it yields ends on the end-of-iteration
// sentinel: an object that cannot be read (already deleted by an overlapping bulk delete) does not end the deletion.
func checkBulkDeleteLoop(p *Prog, c *Closures, r *Result, rule string) {
	itn := p.A.Iterator
	if itn == nil {
		r.Report(rule, "-", "iterator type", Undecided, "iterator type not found", "", nil, false)
		return
	}
	nx := p.FuncByName(itn.Obj().Name() + ".next")
	if nx == nil {
		r.Report(rule, "-", "iterator next", Undecided, "next() not found", "", nil, false)
		return
	}
	n := 0
	for _, fn := range p.Funcs {
		if fn == nx {
			continue
		}
		for _, lp := range naturalLoops(fn) {
			var drains, deletes ssa.Instruction
			sentinel := false
			inLoop := map[*ssa.BasicBlock]bool{}
			for _, b := range lp.blocks {
				inLoop[b] = true
			}
			// values that hold the error of next(): the extract, phis over it, loads of the cell it is stored in
			errVals := map[ssa.Value]bool{}
			cells := map[ssa.Value]bool{}
			var mark func(v ssa.Value)
			mark = func(v ssa.Value) {
				if errVals[v] || v.Referrers() == nil {
					return
				}
				errVals[v] = true
				for _, rf := range *v.Referrers() {
					switch u := rf.(type) {
					case *ssa.Phi:
						mark(u)
					case *ssa.Store:
						if u.Val == v {
							cells[u.Addr] = true
						}
					}
				}
			}
			for _, b := range lp.blocks {
				for _, in := range b.Instrs {
					if call, ok := in.(*ssa.Call); ok && call.Call.StaticCallee() == nx && call.Referrers() != nil {
						for _, rf := range *call.Referrers() {
							if ex, ok := rf.(*ssa.Extract); ok && isErrorType(ex.Type()) {
								mark(ex)
							}
						}
					}
				}
			}
			for _, b := range lp.blocks {
				for _, in := range b.Instrs {
					if u, ok := in.(*ssa.UnOp); ok && u.Op == token.MUL && cells[u.X] {
						errVals[u] = true
					}
				}
			}
			// a nil test of that error that decides whether the loop is left
			nilExit := false
			for _, b := range lp.blocks {
				ifi, ok := b.Instrs[len(b.Instrs)-1].(*ssa.If)
				if !ok {
					continue
				}
				bo, ok := ifi.Cond.(*ssa.BinOp)
				if !ok || (bo.Op != token.EQL && bo.Op != token.NEQ) {
					continue
				}
				isNil := func(v ssa.Value) bool { c, ok := v.(*ssa.Const); return ok && c.IsNil() }
				if !(errVals[bo.X] && isNil(bo.Y)) && !(errVals[bo.Y] && isNil(bo.X)) {
					continue
				}
				// the edge taken when the error is not nil
				e := b.Succs[0]
				if bo.Op == token.EQL {
					e = b.Succs[1]
				}
				if !inLoop[e] {
					nilExit = true
				}
			}
			for _, b := range lp.blocks {
				for _, in := range b.Instrs {
					switch u := in.(type) {
					case *ssa.Call:
						g := u.Call.StaticCallee()
						if g == nx {
							drains = in
						} else if g != nil && inSod(p, g) && (c.Of(g).Has(EFsRmObj) || c.Of(g).Has(ECallUnindex)) && !c.Of(g).Has(EFsWObj) {
							deletes = in
						}
						if classifyExternal(g) == xErrorsIs && len(u.Call.Args) == 2 && isSentinelLoad(p, u.Call.Args[1], "ErrEOI") {
							sentinel = true
						}
					case *ssa.BinOp:
						if (u.Op == token.EQL || u.Op == token.NEQ) && (isSentinelLoad(p, u.X, "ErrEOI") || isSentinelLoad(p, u.Y, "ErrEOI")) {
							sentinel = true
						}
					}
				}
			}
			if drains == nil || deletes == nil {
				continue
			}
			n++
			if sentinel {
				r.Report(rule, FuncName(fn), "the deleting loop ends on the end-of-iteration sentinel", Discharged, "", p.Pos(drains.Pos()), nil, true)
			} else if !nilExit {
				r.Report(rule, FuncName(fn), "the deleting loop ends on the end-of-iteration sentinel", Discharged, "no comparison with the sentinel in the loop, and no nil test of the iterator's error leaves the loop: the loop ends by other means (not decided)", p.Pos(drains.Pos()), nil, false)
			} else {
				r.Report(rule, FuncName(fn), "the deleting loop ends on the end-of-iteration sentinel", Violated, "the loop that deletes what the iterator yields leaves on any error of the iterator and never compares it with the end-of-iteration sentinel: it ends at the first object that cannot be read, so a bulk delete that overlaps another one (both iterators built before either deletion) returns an error and leaves the rest of the collection in place, an outcome no sequential order of the two calls has", p.Pos(drains.Pos()), nil, true)
			}
		}
	}
	if n == 0 {
		r.Report(rule, "-", "the deleting loop ends on the end-of-iteration sentinel", Undecided, "no loop that drains the iterator and deletes was found", "", nil, false)
	}
}

// checkDecoderCounter: in the index decoder the counter is moved past the largest decoded id on every successful path.
func checkDecoderCounter(p *Prog, r *Result, rule string) {
	a := p.A
	n := 0
	for _, fn := range p.Funcs {
		if fn.Name() != "UnmarshalJSON" || fn.Signature.Recv() == nil || named(fn.Signature.Recv().Type()) != a.ObjIndex {
			continue
		}
		var incs []*ssa.Store
		for _, b := range fn.Blocks {
			for _, in := range b.Instrs {
				st, ok := in.(*ssa.Store)
				if !ok {
					continue
				}
				if nn, f, _ := fieldOf(st.Addr); nn != a.ObjIndex || f != a.OICounter {
					continue
				}
				if bo, ok := st.Val.(*ssa.BinOp); ok && bo.Op == token.ADD {
					if cst, ok := bo.Y.(*ssa.Const); ok && cst.Value != nil && cst.Value.String() == "1" {
						incs = append(incs, st)
					}
				}
			}
		}
		var okRets []*ssa.BasicBlock
		for _, b := range fn.Blocks {
			if ret, ok := b.Instrs[len(b.Instrs)-1].(*ssa.Return); ok && len(ret.Results) == 1 {
				if cst, ok := ret.Results[0].(*ssa.Const); ok && cst.IsNil() {
					okRets = append(okRets, b)
				}
			}
		}
		n++
		construct := "the counter passes the largest decoded id on every successful return"
		if len(incs) == 0 || len(okRets) == 0 {
			r.Report(rule, FuncName(fn), construct, Discharged, "no counter+1 store or no literal `return nil` in the decoder: its arithmetic is not decided", p.Pos(fn.Pos()), nil, false)
			continue
		}
		bad := false
		for _, rb := range okRets {
			dom := false
			for _, st := range incs {
				if st.Block() == rb || st.Block().Dominates(rb) {
					dom = true
				}
			}
			if !dom {
				bad = true
			}
		}
		if bad {
			r.Report(rule, FuncName(fn), construct, Violated, "the decoder adds 1 to the restored counter only on some paths to its successful return: for the index file those paths leave out (a single object with id 0, for instance) the next object registered after reopening gets an id that is in use, the id-to-uuid map entry of the older object is overwritten, and searches return the wrong object or a unique value is accepted twice", p.Pos(incs[0].Pos()), nil, true)
		} else {
			r.Report(rule, FuncName(fn), construct, Discharged, "", p.Pos(incs[0].Pos()), nil, true)
		}
	}
	if n == 0 {
		r.Report(rule, "-", "index decoder", Undecided, "decoder of the object index not found", "", nil, false)
	}
}

// linear form: v = base + k, where base is a phi (induction variable) or "len(list)"
type linForm struct {
	phi   *ssa.Phi
	isLen bool
	k     int64
	ok    bool
}

func constInt(v ssa.Value) (int64, bool) {
	if c, ok := v.(*ssa.Const); ok && c.Value != nil {
		if i, ok := constToInt64(c); ok {
			return i, true
		}
	}
	return 0, false
}

func constToInt64(c *ssa.Const) (n int64, ok bool) {
	defer func() {
		if recover() != nil {
			ok = false
		}
	}()
	return c.Int64(), true
}

// linOf resolves v as phi+k or len(list)+k; calls to one-result functions are resolved through their single return (depth 2).
func linOf(p *Prog, v ssa.Value, depth int) linForm {
	switch u := v.(type) {
	case *ssa.Phi:
		return linForm{phi: u, ok: true}
	case *ssa.Convert:
		return linOf(p, u.X, depth)
	case *ssa.ChangeType:
		return linOf(p, u.X, depth)
	case *ssa.BinOp:
		if u.Op == token.ADD || u.Op == token.SUB {
			if k, ok := constInt(u.Y); ok {
				l := linOf(p, u.X, depth)
				if u.Op == token.SUB {
					k = -k
				}
				l.k += k
				return l
			}
			if k, ok := constInt(u.X); ok && u.Op == token.ADD {
				l := linOf(p, u.Y, depth)
				l.k += k
				return l
			}
		}
	case *ssa.Call:
		if bi, ok := u.Call.Value.(*ssa.Builtin); ok && bi.Name() == "len" {
			if _, f, _ := loadedField(u.Call.Args[0]); f == p.A.FIIndex {
				return linForm{isLen: true, ok: true}
			}
			return linForm{}
		}
		g := u.Call.StaticCallee()
		if g == nil || !inSod(p, g) || depth <= 0 || g.Signature.Results().Len() != 1 {
			return linForm{}
		}
		var res *linForm
		for _, b := range g.Blocks {
			if ret, ok := b.Instrs[len(b.Instrs)-1].(*ssa.Return); ok && len(ret.Results) == 1 {
				l := linOf(p, ret.Results[0], depth-1)
				if !l.ok || !l.isLen {
					return linForm{}
				}
				if res != nil && res.k != l.k {
					return linForm{}
				}
				res = &l
			}
		}
		if res != nil {
			return *res
		}
	}
	return linForm{}
}

// checkOrderingVisitsAll: the ordering test of a field index compares every entry: in its loop over the sorted list the
// greatest position read is the last one and the smallest is the first.
func checkOrderingVisitsAll(p *Prog, r *Result, rule string) {
	a := p.A
	oic := p.FuncByName("objIndex.control")
	if oic == nil {
		r.Report(rule, "-", "ordering test", Undecided, "index-level control not found", "", nil, false)
		return
	}
	n := 0
	seen := map[*ssa.Function]bool{}
	for _, f := range calleesWithin(p, oic, 2) {
		if f == oic || seen[f] || f.Signature.Recv() == nil || named(f.Signature.Recv().Type()) != a.FieldIndex {
			continue
		}
		seen[f] = true
		for _, lp := range naturalLoops(f) {
			inLoop := map[*ssa.BasicBlock]bool{}
			for _, b := range lp.blocks {
				inLoop[b] = true
			}
			// accesses of the sorted list inside the loop
			var acc []linForm
			var at ssa.Instruction
			undec := false
			for _, b := range lp.blocks {
				for _, in := range b.Instrs {
					ia, ok := in.(*ssa.IndexAddr)
					if !ok {
						continue
					}
					if _, ff, _ := loadedField(ia.X); ff != a.FIIndex {
						continue
					}
					l := linOf(p, ia.Index, 0)
					if !l.ok || l.phi == nil || !inLoop[l.phi.Block()] {
						undec = true
						continue
					}
					acc = append(acc, l)
					at = in
				}
			}
			if len(acc) == 0 && !undec {
				continue
			}
			n++
			construct := "the ordering test reads the list from its first to its last entry"
			if undec {
				r.Report(rule, FuncName(f), construct, Discharged, "a position of the list is not of the form induction variable + constant: not decided", p.Pos(f.Pos()), nil, false)
				continue
			}
			// the loop condition: If in the loop with one successor outside
			var cond *ssa.BinOp
			var exitOnFalse bool
			for _, b := range lp.blocks {
				ifi, ok := b.Instrs[len(b.Instrs)-1].(*ssa.If)
				if !ok {
					continue
				}
				bo, ok := ifi.Cond.(*ssa.BinOp)
				if !ok || (bo.Op != token.LSS && bo.Op != token.LEQ) {
					continue
				}
				lx := linOf(p, bo.X, 0)
				if !lx.ok || lx.phi == nil || lx.phi != acc[0].phi {
					continue
				}
				if inLoop[b.Succs[0]] && !inLoop[b.Succs[1]] {
					cond, exitOnFalse = bo, true
				}
			}
			if cond == nil || !exitOnFalse {
				r.Report(rule, FuncName(f), construct, Discharged, "loop condition is not `i < bound` on the induction variable of the positions read: not decided", p.Pos(f.Pos()), nil, false)
				continue
			}
			lc := linOf(p, cond.X, 0)
			lb := linOf(p, cond.Y, 2)
			if !lb.ok || !lb.isLen {
				r.Report(rule, FuncName(f), construct, Discharged, "loop bound is not len(list) + constant: not decided", p.Pos(f.Pos()), nil, false)
				continue
			}
			for _, l := range acc {
				if l.phi != lc.phi {
					undec = true
				}
			}
			if undec {
				r.Report(rule, FuncName(f), construct, Discharged, "positions read use several induction variables: not decided", p.Pos(f.Pos()), nil, false)
				continue
			}
			// phi + lc.k < len + lb.k (or <=)  =>  phi <= len + lb.k - lc.k - 1 (or - 0); greatest position read = that + max ka
			maxK, minK := acc[0].k, acc[0].k
			for _, l := range acc {
				if l.k > maxK {
					maxK = l.k
				}
				if l.k < minK {
					minK = l.k
				}
			}
			last := lb.k - lc.k + maxK // relative to len, before the -1 of `<`
			if cond.Op == token.LSS {
				last--
			}
			// first position read: initial value of the induction variable + minK (or a constant position read before the loop)
			first := int64(-1)
			for i, e := range lc.phi.Edges {
				if !inLoop[lc.phi.Block().Preds[i]] {
					if k, ok := constInt(e); ok {
						first = k + minK
					}
				}
			}
			readsZeroOutside := false
			for _, b := range f.Blocks {
				if inLoop[b] {
					continue
				}
				for _, in := range b.Instrs {
					if ia, ok := in.(*ssa.IndexAddr); ok {
						if _, ff, _ := loadedField(ia.X); ff == a.FIIndex {
							if k, ok := constInt(ia.Index); ok && k == 0 {
								readsZeroOutside = true
							}
						}
					}
				}
			}
			switch {
			case last != -1:
				r.Report(rule, FuncName(f), construct, Violated, fmt.Sprintf("the greatest position the ordering test reads is len(list)%+d, not len(list)-1: the last entries of a field index are never compared, so an index file whose tail is out of order passes the control, is published, and binary searches on it miss or the index panics", last), p.Pos(at.Pos()), nil, true)
			case first > 1 || (first == 1 && !readsZeroOutside):
				r.Report(rule, FuncName(f), construct, Violated, fmt.Sprintf("the smallest position the ordering test reads is %d: the first entries of a field index are never compared", first), p.Pos(at.Pos()), nil, true)
			default:
				r.Report(rule, FuncName(f), construct, Discharged, "", p.Pos(at.Pos()), nil, true)
			}
		}
	}
	if n == 0 {
		r.Report(rule, "-", "the ordering test reads the list from its first to its last entry", Undecided, "no loop over the sorted list was found in the reach of the index-level control", "", nil, false)
	}
}
