package main

import (
	"fmt"
	"go/token"
	"sort"
	"strings"

	"golang.org/x/tools/go/ssa"
)

// isSentinelLoad: v is a load of the named error sentinel.
func isSentinelLoad(p *Prog, v ssa.Value, name string) bool {
	for {
		switch u := v.(type) {
		case *ssa.ChangeInterface:
			v = u.X
			continue
		case *ssa.MakeInterface:
			v = u.X
			continue
		}
		break
	}
	u, ok := v.(*ssa.UnOp)
	if !ok || u.Op != token.MUL {
		return false
	}
	g, ok := u.X.(*ssa.Global)
	if !ok {
		return false
	}
	for gv, n := range p.A.Sentinels {
		if n == name && g.Object() == gv {
			return true
		}
	}
	return false
}

// checkBulkDeleteLoop: the loop that drains the iterator and deletes what it yields ends on the end-of-iteration
// sentinel: an object that cannot be read (already deleted by an overlapping bulk delete) does not end the deletion.
func checkBulkDeleteLoop(p *Prog, c *Closures, r *Result, rule string) {
	itn := p.A.Iterator
	if itn == nil {
		r.Report(rule, "-", "iterator type", Undecided, "iterator type not found", "", nil, false)
		return
	}
	nx := p.FuncByName(itn.Obj().Name() + ".next")
	if nx == nil {
		r.Report(rule, "-", "iterator next", Undecided, "next() not found", "", nil, false)
		return
	}
	n := 0
	for _, fn := range p.Funcs {
		if fn == nx {
			continue
		}
		for _, lp := range naturalLoops(fn) {
			var drains, deletes ssa.Instruction
			sentinel := false
			inLoop := map[*ssa.BasicBlock]bool{}
			for _, b := range lp.blocks {
				inLoop[b] = true
			}
			// values that hold the error of next(): the extract, phis over it, loads of the cell it is stored in
			errVals := map[ssa.Value]bool{}
			cells := map[ssa.Value]bool{}
			var mark func(v ssa.Value)
			mark = func(v ssa.Value) {
				if errVals[v] || v.Referrers() == nil {
					return
				}
				errVals[v] = true
				for _, rf := range *v.Referrers() {
					switch u := rf.(type) {
					case *ssa.Phi:
						mark(u)
					case *ssa.Store:
						if u.Val == v {
							cells[u.Addr] = true
						}
					}
				}
			}
			for _, b := range lp.blocks {
				for _, in := range b.Instrs {
					if call, ok := in.(*ssa.Call); ok && call.Call.StaticCallee() == nx && call.Referrers() != nil {
						for _, rf := range *call.Referrers() {
							if ex, ok := rf.(*ssa.Extract); ok && isErrorType(ex.Type()) {
								mark(ex)
							}
						}
					}
				}
			}
			for _, b := range lp.blocks {
				for _, in := range b.Instrs {
					if u, ok := in.(*ssa.UnOp); ok && u.Op == token.MUL && cells[u.X] {
						errVals[u] = true
					}
				}
			}
			// a nil test of that error that decides whether the loop is left
			nilExit := false
			for _, b := range lp.blocks {
				ifi, ok := b.Instrs[len(b.Instrs)-1].(*ssa.If)
				if !ok {
					continue
				}
				bo, ok := ifi.Cond.(*ssa.BinOp)
				if !ok || (bo.Op != token.EQL && bo.Op != token.NEQ) {
					continue
				}
				isNil := func(v ssa.Value) bool { c, ok := v.(*ssa.Const); return ok && c.IsNil() }
				if !(errVals[bo.X] && isNil(bo.Y)) && !(errVals[bo.Y] && isNil(bo.X)) {
					continue
				}
				// the edge taken when the error is not nil
				e := b.Succs[0]
				if bo.Op == token.EQL {
					e = b.Succs[1]
				}
				if !inLoop[e] {
					nilExit = true
				}
			}
			for _, b := range lp.blocks {
				for _, in := range b.Instrs {
					switch u := in.(type) {
					case *ssa.Call:
						g := u.Call.StaticCallee()
						if g == nx {
							drains = in
						} else if g != nil && inSod(p, g) && (c.Of(g).Has(EFsRmObj) || c.Of(g).Has(ECallUnindex)) && !c.Of(g).Has(EFsWObj) {
							deletes = in
						}
						if classifyExternal(g) == xErrorsIs && len(u.Call.Args) == 2 && isSentinelLoad(p, u.Call.Args[1], "ErrEOI") {
							sentinel = true
						}
					case *ssa.BinOp:
						if (u.Op == token.EQL || u.Op == token.NEQ) && (isSentinelLoad(p, u.X, "ErrEOI") || isSentinelLoad(p, u.Y, "ErrEOI")) {
							sentinel = true
						}
					}
				}
			}
			if drains == nil || deletes == nil {
				continue
			}
			n++
			if sentinel {
				r.Report(rule, FuncName(fn), "the deleting loop ends on the end-of-iteration sentinel", Discharged, "", p.Pos(drains.Pos()), nil, true)
			} else if !nilExit {
				r.Report(rule, FuncName(fn), "the deleting loop ends on the end-of-iteration sentinel", Discharged, "no comparison with the sentinel in the loop, and no nil test of the iterator's error leaves the loop: the loop ends by other means (not decided)", p.Pos(drains.Pos()), nil, false)
			} else {
				r.Report(rule, FuncName(fn), "the deleting loop ends on the end-of-iteration sentinel", Violated, "the loop that deletes what the iterator yields leaves on any error of the iterator and never compares it with the end-of-iteration sentinel: it ends at the first object that cannot be read, so a bulk delete that overlaps another one (both iterators built before either deletion) returns an error and leaves the rest of the collection in place, an outcome no sequential order of the two calls has", p.Pos(drains.Pos()), nil, true)
			}
		}
	}
	if n == 0 {
		r.Report(rule, "-", "the deleting loop ends on the end-of-iteration sentinel", Undecided, "no loop that drains the iterator and deletes was found", "", nil, false)
	}
}

// checkDecoderCounter: in the index decoder the counter is moved past the largest decoded id on every successful path.
func checkDecoderCounter(p *Prog, r *Result, rule string) {
	a := p.A
	n := 0
	for _, fn := range p.Funcs {
		if fn.Name() != "UnmarshalJSON" || fn.Signature.Recv() == nil || named(fn.Signature.Recv().Type()) != a.ObjIndex {
			continue
		}
		var incs []*ssa.Store
		for _, b := range fn.Blocks {
			for _, in := range b.Instrs {
				st, ok := in.(*ssa.Store)
				if !ok {
					continue
				}
				if nn, f, _ := fieldOf(st.Addr); nn != a.ObjIndex || f != a.OICounter {
					continue
				}
				if bo, ok := st.Val.(*ssa.BinOp); ok && bo.Op == token.ADD {
					if cst, ok := bo.Y.(*ssa.Const); ok && cst.Value != nil && cst.Value.String() == "1" {
						incs = append(incs, st)
					}
				}
			}
		}
		var okRets []*ssa.BasicBlock
		for _, b := range fn.Blocks {
			if ret, ok := b.Instrs[len(b.Instrs)-1].(*ssa.Return); ok && len(ret.Results) == 1 {
				if cst, ok := ret.Results[0].(*ssa.Const); ok && cst.IsNil() {
					okRets = append(okRets, b)
				}
			}
		}
		n++
		construct := "the counter passes the largest decoded id on every successful return"
		if len(incs) == 0 || len(okRets) == 0 {
			r.Report(rule, FuncName(fn), construct, Discharged, "no counter+1 store or no literal `return nil` in the decoder: its arithmetic is not decided", p.Pos(fn.Pos()), nil, false)
			continue
		}
		bad := false
		for _, rb := range okRets {
			dom := false
			for _, st := range incs {
				if st.Block() == rb || st.Block().Dominates(rb) {
					dom = true
				}
			}
			if !dom {
				bad = true
			}
		}
		if bad {
			r.Report(rule, FuncName(fn), construct, Violated, "the decoder adds 1 to the restored counter only on some paths to its successful return: for the index file those paths leave out (a single object with id 0, for instance) the next object registered after reopening gets an id that is in use, the id-to-uuid map entry of the older object is overwritten, and searches return the wrong object or a unique value is accepted twice", p.Pos(incs[0].Pos()), nil, true)
		} else {
			r.Report(rule, FuncName(fn), construct, Discharged, "", p.Pos(incs[0].Pos()), nil, true)
		}
	}
	if n == 0 {
		r.Report(rule, "-", "index decoder", Undecided, "decoder of the object index not found", "", nil, false)
	}
}

// linear form: v = base + k, where base is a phi (induction variable) or "len(list)"
type linForm struct {
	phi   *ssa.Phi
	isLen bool
	k     int64
	ok    bool
}

func constInt(v ssa.Value) (int64, bool) {
	if c, ok := v.(*ssa.Const); ok && c.Value != nil {
		if i, ok := constToInt64(c); ok {
			return i, true
		}
	}
	return 0, false
}

func constToInt64(c *ssa.Const) (n int64, ok bool) {
	defer func() {
		if recover() != nil {
			ok = false
		}
	}()
	return c.Int64(), true
}

// linOf resolves v as phi+k or len(list)+k; calls to one-result functions are resolved through their single return (depth 2).
func linOf(p *Prog, v ssa.Value, depth int) linForm {
	switch u := v.(type) {
	case *ssa.Phi:
		return linForm{phi: u, ok: true}
	case *ssa.Convert:
		return linOf(p, u.X, depth)
	case *ssa.ChangeType:
		return linOf(p, u.X, depth)
	case *ssa.BinOp:
		if u.Op == token.ADD || u.Op == token.SUB {
			if k, ok := constInt(u.Y); ok {
				l := linOf(p, u.X, depth)
				if u.Op == token.SUB {
					k = -k
				}
				l.k += k
				return l
			}
			if k, ok := constInt(u.X); ok && u.Op == token.ADD {
				l := linOf(p, u.Y, depth)
				l.k += k
				return l
			}
		}
	case *ssa.Call:
		if bi, ok := u.Call.Value.(*ssa.Builtin); ok && bi.Name() == "len" {
			if _, f, _ := loadedField(u.Call.Args[0]); f == p.A.FIIndex {
				return linForm{isLen: true, ok: true}
			}
			return linForm{}
		}
		g := u.Call.StaticCallee()
		if g == nil || !inSod(p, g) || depth <= 0 || g.Signature.Results().Len() != 1 {
			return linForm{}
		}
		var res *linForm
		for _, b := range g.Blocks {
			if ret, ok := b.Instrs[len(b.Instrs)-1].(*ssa.Return); ok && len(ret.Results) == 1 {
				l := linOf(p, ret.Results[0], depth-1)
				if !l.ok || !l.isLen {
					return linForm{}
				}
				if res != nil && res.k != l.k {
					return linForm{}
				}
				res = &l
			}
		}
		if res != nil {
			return *res
		}
	}
	return linForm{}
}

// checkOrderingVisitsAll: the ordering test of a field index compares every entry: in its loop over the sorted list the
// greatest position read is the last one and the smallest is the first.
func checkOrderingVisitsAll(p *Prog, r *Result, rule string) {
	a := p.A
	oic := p.FuncByName("objIndex.control")
	if oic == nil {
		r.Report(rule, "-", "ordering test", Undecided, "index-level control not found", "", nil, false)
		return
	}
	n := 0
	seen := map[*ssa.Function]bool{}
	for _, f := range calleesWithin(p, oic, 2) {
		if f == oic || seen[f] || f.Signature.Recv() == nil || named(f.Signature.Recv().Type()) != a.FieldIndex {
			continue
		}
		seen[f] = true
		for _, lp := range naturalLoops(f) {
			inLoop := map[*ssa.BasicBlock]bool{}
			for _, b := range lp.blocks {
				inLoop[b] = true
			}
			// accesses of the sorted list inside the loop
			var acc []linForm
			var at ssa.Instruction
			undec := false
			for _, b := range lp.blocks {
				for _, in := range b.Instrs {
					ia, ok := in.(*ssa.IndexAddr)
					if !ok {
						continue
					}
					if _, ff, _ := loadedField(ia.X); ff != a.FIIndex {
						continue
					}
					l := linOf(p, ia.Index, 0)
					if !l.ok || l.phi == nil || !inLoop[l.phi.Block()] {
						undec = true
						continue
					}
					acc = append(acc, l)
					at = in
				}
			}
			if len(acc) == 0 && !undec {
				continue
			}
			n++
			construct := "the ordering test reads the list from its first to its last entry"
			if undec {
				r.Report(rule, FuncName(f), construct, Discharged, "a position of the list is not of the form induction variable + constant: not decided", p.Pos(f.Pos()), nil, false)
				continue
			}
			// the loop condition: If in the loop with one successor outside
			var cond *ssa.BinOp
			var exitOnFalse bool
			for _, b := range lp.blocks {
				ifi, ok := b.Instrs[len(b.Instrs)-1].(*ssa.If)
				if !ok {
					continue
				}
				bo, ok := ifi.Cond.(*ssa.BinOp)
				if !ok || (bo.Op != token.LSS && bo.Op != token.LEQ) {
					continue
				}
				lx := linOf(p, bo.X, 0)
				if !lx.ok || lx.phi == nil || lx.phi != acc[0].phi {
					continue
				}
				if inLoop[b.Succs[0]] && !inLoop[b.Succs[1]] {
					cond, exitOnFalse = bo, true
				}
			}
			if cond == nil || !exitOnFalse {
				r.Report(rule, FuncName(f), construct, Discharged, "loop condition is not `i < bound` on the induction variable of the positions read: not decided", p.Pos(f.Pos()), nil, false)
				continue
			}
			lc := linOf(p, cond.X, 0)
			lb := linOf(p, cond.Y, 2)
			if !lb.ok || !lb.isLen {
				r.Report(rule, FuncName(f), construct, Discharged, "loop bound is not len(list) + constant: not decided", p.Pos(f.Pos()), nil, false)
				continue
			}
			for _, l := range acc {
				if l.phi != lc.phi {
					undec = true
				}
			}
			if undec {
				r.Report(rule, FuncName(f), construct, Discharged, "positions read use several induction variables: not decided", p.Pos(f.Pos()), nil, false)
				continue
			}
			// phi + lc.k < len + lb.k (or <=)  =>  phi <= len + lb.k - lc.k - 1 (or - 0); greatest position read = that + max ka
			maxK, minK := acc[0].k, acc[0].k
			for _, l := range acc {
				if l.k > maxK {
					maxK = l.k
				}
				if l.k < minK {
					minK = l.k
				}
			}
			last := lb.k - lc.k + maxK // relative to len, before the -1 of `<`
			if cond.Op == token.LSS {
				last--
			}
			// first position read: initial value of the induction variable + minK (or a constant position read before the loop)
			first := int64(-1)
			for i, e := range lc.phi.Edges {
				if !inLoop[lc.phi.Block().Preds[i]] {
					if k, ok := constInt(e); ok {
						first = k + minK
					}
				}
			}
			readsZeroOutside := false
			for _, b := range f.Blocks {
				if inLoop[b] {
					continue
				}
				for _, in := range b.Instrs {
					if ia, ok := in.(*ssa.IndexAddr); ok {
						if _, ff, _ := loadedField(ia.X); ff == a.FIIndex {
							if k, ok := constInt(ia.Index); ok && k == 0 {
								readsZeroOutside = true
							}
						}
					}
				}
			}
			switch {
			case last != -1:
				r.Report(rule, FuncName(f), construct, Violated, fmt.Sprintf("the greatest position the ordering test reads is len(list)%+d, not len(list)-1: the last entries of a field index are never compared, so an index file whose tail is out of order passes the control, is published, and binary searches on it miss or the index panics", last), p.Pos(at.Pos()), nil, true)
			case first > 1 || (first == 1 && !readsZeroOutside):
				r.Report(rule, FuncName(f), construct, Violated, fmt.Sprintf("the smallest position the ordering test reads is %d: the first entries of a field index are never compared", first), p.Pos(at.Pos()), nil, true)
			default:
				r.Report(rule, FuncName(f), construct, Discharged, "", p.Pos(at.Pos()), nil, true)
			}
		}
	}
	if n == 0 {
		r.Report(rule, "-", "the ordering test reads the list from its first to its last entry", Undecided, "no loop over the sorted list was found in the reach of the index-level control", "", nil, false)
	}
}

// checkListingKeepsAllExtensions: the directory listing that the control and Repair rely on keeps an entry whatever
// extension the namer can have given it: a test of the extension part that guards the registration of an entry is
// evaluated on the extensions the namer produces, the empty one included.
func checkListingKeepsAllExtensions(p *Prog, r *Result, rule string) {
	lst := p.FuncByName("uuidsFromDir")
	split := p.FuncByName("uuidExt")
	if lst == nil || split == nil {
		r.Report(rule, "uuidsFromDir", "listing", Undecided, "directory listing or name splitter not found", "", nil, false)
		return
	}
	suffix := ""
	if gv, ok := p.SPkg.Members["compressedExtension"].(*ssa.Global); ok {
		suffix = globalStringInit(p, gv)
	}
	var samples []string
	for _, e := range []string{"", ".json", ".obj", ".doc.json"} {
		samples = append(samples, e, e+suffix)
	}
	// values holding the extension part
	isExt := func(v ssa.Value) bool {
		ex, ok := v.(*ssa.Extract)
		if !ok || ex.Index != 1 {
			return false
		}
		call, ok := ex.Tuple.(*ssa.Call)
		return ok && call.Call.StaticCallee() == split
	}
	evalCond := func(cond ssa.Value, ext string) (bool, bool) {
		neg := false
		for {
			if u, ok := cond.(*ssa.UnOp); ok && u.Op == token.NOT {
				cond, neg = u.X, !neg
				continue
			}
			break
		}
		res, ok := false, false
		switch c := cond.(type) {
		case *ssa.BinOp:
			if isExt(c.X) || isExt(c.Y) {
				other := c.Y
				if isExt(c.Y) {
					other = c.X
				}
				if s, isS := constString(other); isS && (c.Op == token.EQL || c.Op == token.NEQ) {
					res, ok = (ext == s) == (c.Op == token.EQL), true
				}
			} else if call, isC := c.X.(*ssa.Call); isC {
				if bi, isB := call.Call.Value.(*ssa.Builtin); isB && bi.Name() == "len" && isExt(call.Call.Args[0]) {
					if k, isK := constInt(c.Y); isK {
						n := int64(len(ext))
						ok = true
						switch c.Op {
						case token.EQL:
							res = n == k
						case token.NEQ:
							res = n != k
						case token.LSS:
							res = n < k
						case token.LEQ:
							res = n <= k
						case token.GTR:
							res = n > k
						case token.GEQ:
							res = n >= k
						default:
							ok = false
						}
					}
				}
			}
		case *ssa.Call:
			g := c.Call.StaticCallee()
			if g != nil && g.Object() != nil && g.Object().Pkg() != nil && g.Object().Pkg().Path() == "strings" && len(c.Call.Args) == 2 && isExt(c.Call.Args[0]) {
				if s, isS := constString(c.Call.Args[1]); isS {
					switch g.Name() {
					case "HasPrefix":
						res, ok = strings.HasPrefix(ext, s), true
					case "HasSuffix":
						res, ok = strings.HasSuffix(ext, s), true
					case "Contains":
						res, ok = strings.Contains(ext, s), true
					}
				}
			}
		}
		return res != neg, ok
	}
	n := 0
	for _, lp := range naturalLoops(lst) {
		inLoop := map[*ssa.BasicBlock]bool{}
		for _, b := range lp.blocks {
			inLoop[b] = true
		}
		for _, b := range lp.blocks {
			for _, in := range b.Instrs {
				mu, ok := in.(*ssa.MapUpdate)
				if !ok {
					continue
				}
				n++
				bad, found := "", false
				tests := 0
				for d := b.Idom(); d != nil && inLoop[d]; d = d.Idom() {
					ifi, ok := d.Instrs[len(d.Instrs)-1].(*ssa.If)
					if !ok {
						continue
					}
					want := true
					// the successor through which the registration is reached (a back edge to the loop header, which
					// dominates the whole body, is not one)
					leads := func(s *ssa.BasicBlock) bool {
						return s != lp.header && (s == b || (s.Dominates(b) && d.Dominates(s)))
					}
					switch {
					case leads(d.Succs[0]) && !leads(d.Succs[1]):
					case leads(d.Succs[1]) && !leads(d.Succs[0]):
						want = false
					default:
						continue
					}
					for _, ext := range samples {
						got, ok := evalCond(ifi.Cond, ext)
						if !ok {
							break
						}
						tests++
						if got != want && !found {
							bad, found = ext, true
						}
					}
				}
				construct := "an entry is registered whatever extension the namer gave it"
				if found || tests > 0 {
					if found {
						r.Report(rule, FuncName(lst), construct, Violated, fmt.Sprintf("the directory listing skips the entries whose extension part is %q, which the namer produces (a schema whose extension is empty stores its objects as bare <uuid> files): the control reports a healthy collection as corrupted and Repair drops every object of it from the index", bad), p.Pos(mu.Pos()), nil, true)
					} else {
						r.Report(rule, FuncName(lst), construct, Discharged, "", p.Pos(mu.Pos()), nil, true)
					}
				} else {
					r.Report(rule, FuncName(lst), construct, Discharged, "no test of the extension part guards the registration", p.Pos(mu.Pos()), nil, true)
				}
			}
		}
	}
	if n == 0 {
		r.Report(rule, FuncName(lst), "an entry is registered whatever extension the namer gave it", Discharged, "the listing has no loop that registers entries in a map: not decided", p.Pos(lst.Pos()), nil, false)
	}
}

// checkCloneFreshDestination: the destination handed to a recursive clone call inside a loop is made in that
// iteration: the arms that return early (nil pointer / slice / map, empty interface) leave the destination as it is,
// and the pointer arm allocates only when the destination is nil, so a destination kept from the previous element
// makes entries share memory or inherit the previous entry's value.
func checkCloneFreshDestination(p *Prog, r *Result, rule string) {
	cv := p.FuncByName("cloneValue")
	if cv == nil {
		r.Report(rule, "cloneValue", "function", Undecided, "deep clone not found", "", nil, false)
		return
	}
	family := map[*ssa.Function]bool{}
	for _, f := range calleesWithin(p, cv, 2) {
		if inSod(p, f) {
			family[f] = true
		}
	}
	family[cv] = true
	isReflect := func(g *ssa.Function, names ...string) bool {
		if g == nil || g.Object() == nil || g.Object().Pkg() == nil || g.Object().Pkg().Path() != "reflect" {
			return false
		}
		if len(names) == 0 {
			return true
		}
		for _, n := range names {
			if g.Name() == n {
				return true
			}
		}
		return false
	}
	n := 0
	var fns []*ssa.Function
	for f := range family {
		fns = append(fns, f)
	}
	sort.Slice(fns, func(i, j int) bool { return FuncName(fns[i]) < FuncName(fns[j]) })
	for _, f := range fns {
		for _, lp := range naturalLoops(f) {
			inLoop := map[*ssa.BasicBlock]bool{}
			for _, b := range lp.blocks {
				inLoop[b] = true
			}
			for _, b := range lp.blocks {
				for _, in := range b.Instrs {
					call, ok := in.(*ssa.Call)
					if !ok || !family[call.Call.StaticCallee()] {
						continue
					}
					for _, arg := range call.Call.Args {
						v := arg
						var origin *ssa.Call
						for steps := 0; steps < 8 && v != nil; steps++ {
							switch u := v.(type) {
							case *ssa.MakeInterface:
								v = u.X
							case *ssa.ChangeInterface:
								v = u.X
							case *ssa.Call:
								g := u.Call.StaticCallee()
								switch {
								case isReflect(g, "New"):
									origin, v = u, nil
								case isReflect(g, "Addr", "Elem", "Interface", "Convert") && g.Signature.Recv() != nil && len(u.Call.Args) > 0:
									// the same storage seen another way; Index / Field / MapIndex select a part of their
									// own per element and end the walk
									v = u.Call.Args[0]
								default:
									v = nil
								}
							default:
								v = nil
							}
						}
						if origin == nil {
							continue
						}
						n++
						construct := "the destination of an element's clone is made in the same iteration"
						if inLoop[origin.Block()] {
							r.Report(rule, FuncName(f), construct, Discharged, "", p.Pos(call.Pos()), nil, true)
						} else {
							r.Report(rule, FuncName(f), construct, Violated, "the value the elements are cloned into is made once, before the loop, and reused for every element: the clone leaves its destination untouched for a nil pointer / slice / map or an empty interface and reuses a non-nil destination pointer, so an element inherits the previous element's clone and elements of pointer type all point to one structure; cached reads then differ from what was stored and share memory", p.Pos(call.Pos()), nil, true)
						}
					}
				}
			}
		}
	}
	if n == 0 {
		r.Report(rule, FuncName(cv), "the destination of an element's clone is made in the same iteration", Discharged, "no loop of the clone hands a reflect.New destination to a recursive call: not decided", p.Pos(cv.Pos()), nil, false)
	}
}

// checkFilesFromAcceptedContent: an API entry that does not accept objects (it cannot report a uniqueness error)
// never encodes the caller's object for an object file: what such a call writes is what the stores hold.
func checkFilesFromAcceptedContent(p *Prog, c *Closures, r *Result, rule string) {
	var roots []*ssa.Function
	for _, f := range apiRoots(p) {
		cl := c.Of(f)
		if cl.Has(EFsWObj) && !cl.Has(EErrUnique) {
			roots = append(roots, f)
		}
	}
	if len(roots) == 0 {
		r.Report(rule, "-", "entries that write object files without accepting", Undecided, "none found (Flush*, Close, Create, Repair, the flusher were expected)", "", nil, false)
		return
	}
	vals := []Valuation{{Cache: triYes, Async: triYes}, {Cache: triNo, Async: triNo}}
	exploreAll(p, c, jobsFor(roots, vals), EffSet{}, r, func(j exploreJob) Listener {
		return &effListener{p: p, r: r, root: j.root, val: j.val, onEvent: func(l *effListener, x *Explorer, st *State, ev *Event) {
			if ev.Kind != EvEffect || ev.Eff != EJsonEncObj {
				return
			}
			fn := ownerName(p, l.root) + "." + l.root.Name()
			if ev.Tags&TParamObj != 0 {
				l.bad(rule, fn, "object files are encoded from stored content", "a call that accepts nothing encodes its caller's object for an object file: the file gets values that were never validated or indexed (a caller that edited its value after the insert, or never inserted it), so after reopening reads and searches disagree, a unique value can be on disk twice and a file without index entry makes the collection corrupted", l.p.Pos(ev.Instr.Pos()), x, st, ev.Instr)
			} else {
				l.ok(rule, fn, "object files are encoded from stored content", l.p.Pos(ev.Instr.Pos()))
			}
		}}
	}, nil)
}
