package main

import (
	"fmt"
	"go/token"
	"go/types"
	"sort"
	"strings"

	"golang.org/x/tools/go/ssa"
)

// searchRoots: the API entries that evaluate, refine or consume a search.
func searchRoots(p *Prog) []*ssa.Function {
	var out []*ssa.Function
	for _, f := range apiRoots(p) {
		if p.GoRoot[f] && (f.Parent() != nil || p.GoOnly[f]) {
			continue
		}
		n := named(recvType(f))
		if n == p.A.Search || f.Name() == "Search" {
			out = append(out, f)
		}
	}
	return out
}

// aliasListener implements the freshness rules shared by C20 and C02.
func aliasListener(p *Prog, r *Result, rulePublish, ruleWrite, ruleEntry string) func(j exploreJob) Listener {
	a := p.A
	return func(j exploreJob) Listener {
		return &effListener{p: p, r: r, root: j.root, val: j.val, onEvent: func(l *effListener, x *Explorer, st *State, ev *Event) {
			switch ev.Kind {
			case EvAccess:
				if !ev.Write {
					return
				}
				fn := FuncName(st.top().fn)
				where := l.p.Pos(ev.Instr.Pos())
				switch {
				case rulePublish != "" && ev.Struct == a.Search && ev.Field == a.SearchFields:
					if ev.VNil != triNo && ev.VTags&TSearchFields == 0 {
						l.bad(rulePublish, fn, "result slice stored in a Search is non-nil", "a Search can be given a nil result slice (e.g. append(nil, empty...)): the refinements use 'constraint != nil' to mean 'restrict to the previous result', so And on an empty result would run unconstrained and return (or delete) everything that matches its own comparison (a value derived from another Search's result slice is accepted by induction)", where, x, st, ev.Instr)
					} else {
						l.ok(rulePublish, fn, "result slice stored in a Search is non-nil", where)
					}
					if ev.VTags&TLive != 0 {
						l.bad(rulePublish, fn, "result slice stored in a Search is fresh", "a Search is given a slice that aliases the live index (a sub-slice of a field index): later inserts and deletes shift the entries under it, so collecting the search afterwards returns objects that did not match when it was evaluated, and appends through it overwrite index entries", where, x, st, ev.Instr)
					} else {
						l.ok(rulePublish, fn, "result slice stored in a Search is fresh", where)
					}
				case ruleEntry != "" && ev.Struct == a.IndexedField:
					if ev.Tags&(TFresh|TDecoded) != 0 {
						l.ok(ruleEntry, fn, "index entries are written only while unpublished", where)
					} else {
						l.bad(ruleEntry, fn, "index entries are written only while unpublished", "a published index entry (value / object id) is modified in place: snapshots holding the entry would change", where, x, st, ev.Instr)
					}
				}
			case EvAliasWrite:
				if ruleWrite == "" || ev.Tags&TLive == 0 {
					return
				}
				// inside the field index type's own mutators the live slice is the thing being maintained:
				// an append whose result is stored back into the index field, or an element store in a
				// function that also re-assigns the index field
				fn := st.top().fn
				if fn.Signature.Recv() != nil && named(fn.Signature.Recv().Type()) == a.FieldIndex {
					storesBack := func(v ssa.Value) bool {
						if refs := v.Referrers(); refs != nil {
							for _, rf := range *refs {
								if sto, ok := rf.(*ssa.Store); ok && sto.Val == v {
									if n, f, _ := fieldOf(sto.Addr); n == a.FieldIndex && f == a.FIIndex {
										return true
									}
								}
							}
						}
						return false
					}
					if call, ok := ev.Instr.(*ssa.Call); ok {
						if storesBack(call) {
							return
						}
					} else {
						// element store: the function must be a maintainer of the slice (re-assigns the field)
						for _, b := range fn.Blocks {
							for _, in := range b.Instrs {
								if sto, ok := in.(*ssa.Store); ok {
									if n, f, _ := fieldOf(sto.Addr); n == a.FieldIndex && f == a.FIIndex {
										return
									}
								}
							}
						}
					}
				}
				l.bad(ruleWrite, FuncName(fn), "no append/store through an alias of the live index", "an append or element store goes through a slice that aliases the live index outside the index type's own mutators: with spare capacity it overwrites index entries in place", l.p.Pos(ev.Instr.Pos()), x, st, ev.Instr)
			}
		}}
	}
}

// ---- C20 ------------------------------------------------------------------------------

func checkC20(p *Prog, r *Result, tier string) {
	r.Rule("C20.R1", "a Search never holds a slice of the live index: every value stored into the result field of a Search, on every path of every search entry, is fresh (made, copied or appended to a fresh slice)", 2)
	r.Rule("C20.R2", "index entries are immutable once published: the value / object-id fields of an index entry are written only on entries allocated or decoded in the current call tree", 1)
	r.Rule("C20.R3", "object ids are never reused at run time: outside the decoder the id counter only changes by +1, in the function that registers the id in both membership maps", 1)
	r.Rule("C20.R4", "each match at most once: the union dedups by object id (the append of a left-hand entry is guarded by a miss in the marking map keyed by object id)", 1)
	r.Rule("C20.R5", "ids are not reused after reopening: in the decoder of the object index the store counter = counter + 1 that follows the scan of the decoded ids dominates every literal `return nil` (the counter passes the largest id whatever the ids are)", 1)
	r.Rule("C20.R6", "the object index of a schema value in use is never replaced: outside constructors and decoders the index member of a schema is assigned only under a test that it is nil, so the id counter and the id-to-uuid map a snapshot refers to are not started again", 1)
	r.NotDecided = []string{"that the scan of the decoder finds the maximum (arithmetic over decoded keys)", "the values of the entries themselves (C02)"}
	c := computeClosures(p)
	var jobs []exploreJob
	for _, f := range searchRoots(p) {
		jobs = append(jobs, exploreJob{f, Valuation{Cache: triNo, Async: triNo}})
		r.Entries = append(r.Entries, FuncName(f))
	}
	// entry immutability is checked over all handle entries
	exploreAll(p, c, jobs, EffSet{}, r, aliasListener(p, r, "C20.R1", "", ""), nil)
	var all []exploreJob
	for _, f := range apiRoots(p) {
		all = append(all, exploreJob{f, Valuation{}})
	}
	exploreAll(p, c, all, EffSet{}, r, aliasListener(p, r, "", "", "C20.R2"), nil)
	checkIDCounter(p, r, "C20.R3")
	checkOrDedup(p, r, "C20.R4")
	checkDecoderCounter(p, r, "C20.R5")
	checkFieldNilGuard(p, r, "C20.R6", p.A.SchObjectIndex, "ObjectIndex", "the object index of an existing schema value is replaced without a preceding `ObjectIndex == nil` test: the id counter starts again at 0 and ids are handed out a second time, so a search snapshot taken before resolves an id to a different object (or to an object that was deleted)")
}

func init() { register("C20", checkC20) }

// checkIDCounter: stores to the id counter.
func checkIDCounter(p *Prog, r *Result, rule string) {
	a := p.A
	n := 0
	for _, fn := range p.Funcs {
		for _, b := range fn.Blocks {
			for _, in := range b.Instrs {
				st, ok := in.(*ssa.Store)
				if !ok {
					continue
				}
				nn, f, base := fieldOf(st.Addr)
				if nn != a.ObjIndex || f != a.OICounter {
					continue
				}
				// constructor / decoder initialisation of a fresh index is exempt
				if _, isAlloc := base.(*ssa.Alloc); isAlloc {
					continue
				}
				isDecoder := decoderOf(fn) != nil
				n++
				inc := false
				if bo, ok := st.Val.(*ssa.BinOp); ok && bo.Op == token.ADD {
					if cst, ok := bo.Y.(*ssa.Const); ok && cst.Value != nil && cst.Value.String() == "1" {
						if nn2, f2, _ := loadedField(bo.X); nn2 == a.ObjIndex && f2 == a.OICounter {
							inc = true
						}
					}
				}
				construct := "id counter store"
				switch {
				case isDecoder:
					r.Report(rule, FuncName(fn), construct+" (decoder)", Discharged, "decoder restores the counter from the decoded ids (arithmetic not decided)", p.Pos(in.Pos()), nil, false)
				case inc && writesBothMaps(p, fn):
					r.Report(rule, FuncName(fn), construct, Discharged, "counter = counter + 1 in the function that registers the id in both maps", p.Pos(in.Pos()), nil, true)
				default:
					r.Report(rule, FuncName(fn), construct, Violated, "the object-id counter is assigned something other than counter+1, or outside the registering function: ids could be reused, and a snapshot would resolve a deleted object's id to a different object", p.Pos(in.Pos()), nil, true)
				}
			}
		}
	}
	if n == 0 {
		r.Report(rule, "-", "id counter store", Violated, "the id counter is never advanced", "", nil, true)
	}
}

func writesBothMaps(p *Prog, fn *ssa.Function) bool {
	a := p.A
	w := map[*types.Var]bool{}
	for _, b := range fn.Blocks {
		for _, in := range b.Instrs {
			if mu, ok := in.(*ssa.MapUpdate); ok {
				if n, f, _ := loadedField(mu.Map); n == a.ObjIndex {
					w[f] = true
				}
			}
		}
	}
	return w[a.OIUuids] && w[a.OIObjectIds]
}

// checkOrDedup: in Search.Or the append of an entry is guarded by a miss in a map keyed by uint64.
func checkOrDedup(p *Prog, r *Result, rule string) {
	or := p.FuncByName("Search.Or")
	if or == nil {
		r.Report(rule, "Search.Or", "dedup", Undecided, "Search.Or not found", "", nil, false)
		return
	}
	found := false
	var scope []natLoop
	for _, f := range calleesWithin(p, or, 1) {
		if f == or || (f.Signature.Recv() == nil || named(recvType(f)) == p.A.Search) && !hasSearchSig(f) {
			scope = append(scope, naturalLoops(f)...)
		}
	}
	for _, lp := range scope {
		for _, b := range lp.blocks {
			for _, in := range b.Instrs {
				call, ok := in.(*ssa.Call)
				if !ok {
					continue
				}
				if bi, ok := call.Call.Value.(*ssa.Builtin); !ok || bi.Name() != "append" {
					continue
				}
				// walk up the dominator chain looking for an If on the ok of a lookup in a map[uint64]...
				for d := b.Idom(); d != nil; d = d.Idom() {
					ifi, ok := d.Instrs[len(d.Instrs)-1].(*ssa.If)
					if !ok {
						continue
					}
					// the membership test: `_, ok := m[id]` or, for a map to bool that only ever stores true, `m[id]`
					var lk *ssa.Lookup
					if ex, ok := ifi.Cond.(*ssa.Extract); ok && ex.Index == 1 {
						lk, _ = ex.Tuple.(*ssa.Lookup)
					} else if l2, ok := ifi.Cond.(*ssa.Lookup); ok && !l2.CommaOk && onlyStoresTrue(l2.X) {
						lk = l2
					}
					if lk == nil {
						continue
					}
					mt, ok := lk.X.Type().Underlying().(*types.Map)
					if !ok {
						continue
					}
					if kb, ok := mt.Key().Underlying().(*types.Basic); !ok || kb.Kind() != types.Uint64 {
						continue
					}
					// the append must be on the miss edge (the false successor of the membership test)
					if miss := d.Succs[1]; (miss.Dominates(b) || miss == b) && len(miss.Preds) == 1 {
						if _, f, _ := loadedField(lk.Index); f == p.A.IFObjectId {
							found = true
						}
					}
				}
			}
		}
	}
	if found {
		r.Report(rule, FuncName(or), "union appends only entries whose object id is unmarked", Discharged, "", p.Pos(or.Pos()), nil, true)
	} else {
		r.Report(rule, FuncName(or), "union appends only entries whose object id is unmarked", Violated, "the union does not guard its append by a miss in a marking map keyed by object id: an object matching both sides would be returned twice", p.Pos(or.Pos()), nil, true)
	}
}

// onlyStoresTrue: m is a local map[...]bool into which only the constant true is ever stored.
func onlyStoresTrue(m ssa.Value) bool {
	mt, ok := m.Type().Underlying().(*types.Map)
	if !ok {
		return false
	}
	if b, ok := mt.Elem().Underlying().(*types.Basic); !ok || b.Kind() != types.Bool {
		return false
	}
	if _, ok := m.(*ssa.MakeMap); !ok {
		return false
	}
	refs := m.Referrers()
	if refs == nil {
		return false
	}
	n := 0
	for _, r := range *refs {
		switch r := r.(type) {
		case *ssa.MapUpdate:
			c, ok := r.Value.(*ssa.Const)
			if !ok || c.Value == nil || c.Value.String() != "true" {
				return false
			}
			n++
		case *ssa.Lookup, *ssa.DebugRef:
		default:
			return false // escapes: somebody else may store into it
		}
	}
	return n > 0
}

// ---- C02 ------------------------------------------------------------------------------

func checkC02(p *Prog, r *Result, tier string) {
	r.Rule("C02.R1", "comparison core by finite evaluation: for each dynamic type (int64, uint64, float64, string) and each ordering outcome of the two operands (LT, EQ, GT), less/equal/greater and the six ordering operators of the scan comparator equal the specification table; '~=' is the pattern match on strings", 100)
	r.Rule("C02.R2", "operator tables agree: the literal set dispatched by the indexed search equals the literal set of the scan comparator and of the scan guard, is exactly {=,!=,<,<=,>,>=,~=}, the default arms report ErrUnkownSearchOperator, and the seven indexed arms call seven distinct range functions", 4)
	r.Rule("C02.R3", "normalisation tables agree: every Go type accepted by the index-value constructor is cast by the descriptor to the class the constructor normalises it to; the class sets of the (de)serialisation switches are equal", 14)
	r.Rule("C02.R4", "type guard dominates evaluation: on both search paths the comparison of the probe's class with the field's class, returning ErrCasting on mismatch, precedes every comparator / range-function call", 2)
	r.Rule("C02.R5", "nobody writes through an index alias: no append or element store through a slice aliasing the live index outside the field-index type's own mutators", 0)
	r.Rule("C02.R6", "And/Or plumbing: And passes the receiver's result as constraint and Or passes none; the constrained index is built only from entries found by object id in the live field index; Len is the length of the slice the iterator walks; Search.Delete deletes exactly the iterator built from that slice", 4)
	r.Rule("C02.R7", "the indexed pattern search is the pattern match on every entry: in the field-index function that evaluates '~=', every entry that can reach the result was appended under the true edge of a MatchString of that entry's value; the function returns nothing else (no delegation to an ordering search, no sub-slice of the index)", 1)
	checkRegexArm(p, r, "C02.R7")
	r.NotDecided = []string{"correctness of the bisection (insertionIndexRec, rangeEqual) and of the slice bounds in the six range functions for all index contents: value/arithmetic reasoning that needs loop invariants and a solver (another family)", "field path resolution by reflection (fieldByName)", "completeness of scan results"}
	c := computeClosures(p)
	checkComparisonCore(p, r, "C02.R1")
	checkOperatorTables(p, c, r, "C02.R2")
	checkNormalisationTables(p, r, "C02.R3")
	checkTypeGuard(p, c, r, "C02.R4")
	var jobs []exploreJob
	for _, f := range searchRoots(p) {
		jobs = append(jobs, exploreJob{f, Valuation{Cache: triNo, Async: triNo}})
		r.Entries = append(r.Entries, FuncName(f))
	}
	exploreAll(p, c, jobs, EffSet{}, r, aliasListener(p, r, "C02.R6", "C02.R5", ""), nil)
	r.Report("C02.R5", "search entries", "explored for alias writes", Discharged, "violations are reported per site", "", nil, true)
	checkAndOrPlumbing(p, c, r, "C02.R6")
}

func init() { register("C02", checkC02) }

var cmpTypes = []string{"int64", "uint64", "float64", "string"}

// checkComparisonCore evaluates the comparators over {LT,EQ,GT} x 4 dynamic types.
func checkComparisonCore(p *Prog, r *Result, rule string) {
	a := p.A
	name := a.IndexedField.Obj().Name()
	get := func(m string) *ssa.Function { return p.FuncByName(name + "." + m) }
	less, equal, greater, evaluate := get("less"), get("equal"), get("greater"), get("evaluate")
	if less == nil || equal == nil || greater == nil || evaluate == nil {
		r.Report(rule, name, "comparators", Undecided, "less/equal/greater/evaluate not all found", "", nil, false)
		return
	}
	ops := map[string]func(o int) bool{ // o: -1 LT, 0 EQ, 1 GT
		"=": func(o int) bool { return o == 0 }, "!=": func(o int) bool { return o != 0 },
		"<": func(o int) bool { return o < 0 }, "<=": func(o int) bool { return o <= 0 },
		">": func(o int) bool { return o > 0 }, ">=": func(o int) bool { return o >= 0 },
	}
	opNames := []string{"=", "!=", "<", "<=", ">", ">="}
	mkField := func(dyn string, atom string) AV {
		return AV{K: avPtr, Obj: newAObj(a.IndexedField, map[string]AV{a.IFValue.Name(): avIfaceOf(dyn, avAtomV(atom)), a.IFObjectId.Name(): avI(1)})}
	}
	cells := 0
	for _, dyn := range cmpTypes {
		for _, o := range []int{-1, 0, 1} {
			env := func() *EvalEnv {
				e := &EvalEnv{P: p}
				e.Cmp = func(op token.Token, x, y AV) (bool, bool) {
					if x.K != avAtom || y.K != avAtom {
						return false, false
					}
					ord := 0
					switch {
					case x.S == y.S:
						ord = 0
					case x.S == "A":
						ord = o
					default:
						ord = -o
					}
					switch op {
					case token.EQL:
						return ord == 0, true
					case token.NEQ:
						return ord != 0, true
					case token.LSS:
						return ord < 0, true
					case token.LEQ:
						return ord <= 0, true
					case token.GTR:
						return ord > 0, true
					case token.GEQ:
						return ord >= 0, true
					}
					return false, false
				}
				return e
			}
			oname := map[int]string{-1: "LT", 0: "EQ", 1: "GT"}[o]
			check := func(fn *ssa.Function, label string, args []AV, want bool) {
				cells++
				e := env()
				res, out := e.Eval(fn, args, 0)
				construct := fmt.Sprintf("%s/%s/%s", label, dyn, oname)
				switch {
				case out != "return" || len(res) != 1 || res[0].K != avBool:
					r.Report(rule, FuncName(fn), construct, Undecided, "finite evaluation failed: "+out+" "+e.Why, p.Pos(fn.Pos()), nil, true)
				case res[0].B != want:
					r.Report(rule, FuncName(fn), construct, Violated, fmt.Sprintf("with %s operands ordered %s the function returns %v, the specification says %v: searches on this type return wrong objects", dyn, oname, res[0].B, want), p.Pos(fn.Pos()), nil, true)
				default:
					r.Report(rule, FuncName(fn), construct, Discharged, "", p.Pos(fn.Pos()), nil, true)
				}
			}
			A, B := mkField(dyn, "A"), mkField(dyn, "B")
			check(less, "less", []AV{A, B}, o < 0)
			check(equal, "equal", []AV{A, B}, o == 0)
			check(greater, "greater", []AV{A, B}, o > 0)
			for _, op := range opNames {
				check(evaluate, "evaluate "+op, []AV{A, avS(op), B}, ops[op](o))
			}
		}
	}
	// '~=': on strings the result is the pattern match, otherwise false
	for _, dyn := range cmpTypes {
		for _, match := range []bool{true, false} {
			cells++
			e := &EvalEnv{P: p}
			e.CallHook = func(callee *ssa.Function, args []AV) ([]AV, bool) {
				switch classifyExternal(callee) {
				case xRegexpCompile:
					return []AV{{K: avPtr, Obj: &AObj{F: map[int]AV{}}}, {K: avNil}}, true
				}
				if callee != nil && callee.Name() == "MatchString" {
					return []AV{avB(match)}, true
				}
				return nil, false
			}
			val := func(atom string) AV {
				inner := avAtomV(atom)
				if dyn == "string" {
					inner = avS(atom)
				}
				return AV{K: avPtr, Obj: newAObj(a.IndexedField, map[string]AV{a.IFValue.Name(): avIfaceOf(dyn, inner), a.IFObjectId.Name(): avI(1)})}
			}
			res, out := e.Eval(evaluate, []AV{val("A"), avS("~="), val("B")}, 0)
			want := match && dyn == "string"
			construct := fmt.Sprintf("evaluate ~=/%s/match=%v", dyn, match)
			switch {
			case out != "return" || len(res) != 1 || res[0].K != avBool:
				r.Report(rule, FuncName(evaluate), construct, Undecided, "finite evaluation failed: "+out+" "+e.Why, p.Pos(evaluate.Pos()), nil, true)
			case res[0].B != want:
				r.Report(rule, FuncName(evaluate), construct, Violated, fmt.Sprintf("'~=' on %s returns %v where the pattern match is %v", dyn, res[0].B, match), p.Pos(evaluate.Pos()), nil, true)
			default:
				r.Report(rule, FuncName(evaluate), construct, Discharged, "", p.Pos(evaluate.Pos()), nil, true)
			}
		}
	}
	r.Evaluations += cells
	r.Extra["comparison_cells"] = cells
}

// checkOperatorTables compares the literal sets of the three operator switches.
func checkOperatorTables(p *Prog, c *Closures, r *Result, rule string) {
	a := p.A
	want := []string{"!=", "<", "<=", "=", ">", ">=", "~="}
	idx := p.FuncByName(a.ObjIndex.Obj().Name() + ".search")
	ev := p.FuncByName(a.IndexedField.Obj().Name() + ".evaluate")
	sa := p.FuncByName("DB.searchAll")
	for _, spec := range []struct {
		fn   *ssa.Function
		what string
	}{{idx, "indexed dispatch"}, {ev, "scan comparator"}, {sa, "scan guard"}} {
		if spec.fn == nil {
			r.Report(rule, spec.what, "operator literal set", Undecided, "function not found", "", nil, false)
			continue
		}
		got := stringSwitchLiterals(spec.fn)
		if strings.Join(got, " ") == strings.Join(want, " ") {
			r.Report(rule, FuncName(spec.fn), "operator literal set", Discharged, strings.Join(got, " "), p.Pos(spec.fn.Pos()), nil, true)
		} else {
			r.Report(rule, FuncName(spec.fn), "operator literal set", Violated, fmt.Sprintf("%s handles {%s}, expected {%s}: an operator is missing, extra or misspelt on this path only", spec.what, strings.Join(got, " "), strings.Join(want, " ")), p.Pos(spec.fn.Pos()), nil, true)
		}
	}
	for _, fn := range []*ssa.Function{idx, sa} {
		if fn == nil {
			continue
		}
		if c.Of(fn).Has(EErrOperator) {
			r.Report(rule, FuncName(fn), "default arm reports ErrUnkownSearchOperator", Discharged, "", p.Pos(fn.Pos()), nil, true)
		} else {
			r.Report(rule, FuncName(fn), "default arm reports ErrUnkownSearchOperator", Violated, "an unknown operator is not reported with the operator sentinel on this path", p.Pos(fn.Pos()), nil, true)
		}
	}
	// seven arms -> seven distinct range functions, each arm literal bound to its callee
	if owner, _ := switchOwner(idx, 2); owner != nil {
		arms := map[string]string{}
		for _, b := range owner.Blocks {
			ifi, ok := b.Instrs[len(b.Instrs)-1].(*ssa.If)
			if !ok {
				continue
			}
			bo, ok := ifi.Cond.(*ssa.BinOp)
			if !ok || bo.Op != token.EQL {
				continue
			}
			lit, ok := constString(bo.Y)
			if !ok {
				continue
			}
			// the true successor calls exactly one method of the field index
			for _, in := range b.Succs[0].Instrs {
				if call, ok := in.(*ssa.Call); ok {
					if f := call.Call.StaticCallee(); f != nil && f.Signature.Recv() != nil && named(f.Signature.Recv().Type()) == a.FieldIndex {
						arms[lit] = f.Name()
					}
				}
			}
		}
		callees := map[string]bool{}
		for _, v := range arms {
			callees[v] = true
		}
		var lits []string
		for k := range arms {
			lits = append(lits, k+"->"+arms[k])
		}
		sort.Strings(lits)
		if len(arms) == 7 && len(callees) == 7 {
			r.Report(rule, FuncName(idx), "seven arms call seven distinct range functions", Discharged, strings.Join(lits, " "), p.Pos(idx.Pos()), nil, true)
		} else {
			r.Report(rule, FuncName(idx), "seven arms call seven distinct range functions", Violated, fmt.Sprintf("operator arms: %v (two operators share a range function, or an arm calls none)", lits), p.Pos(idx.Pos()), nil, true)
		}
		r.Extra["operator_arms"] = lits
		// each arm's callee must be the one whose behaviour matches the literal: checked by name-free semantics in R7 (range functions vs comparators)
	}
}

// checkNormalisationTables: type switch of the index-value constructor vs FieldDescriptor.cast.
func checkNormalisationTables(p *Prog, r *Result, rule string) {
	a := p.A
	ctor := p.FuncByName("newIndexedField")
	cast := p.FuncByName("FieldDescriptor.cast")
	if ctor == nil || cast == nil {
		r.Report(rule, "-", "constructor/cast", Undecided, "newIndexedField or FieldDescriptor.cast not found", "", nil, false)
		return
	}
	// (1) constructor: for each asserted type, the class of the value it stores
	classOf := map[string]string{}
	// the type switch sits in the constructor or in a helper it hands the value to
	var ctorBlocks []*ssa.BasicBlock
	for _, f := range calleesWithin(p, ctor, 1) {
		if f == ctor || (f.Signature.Recv() == nil && f.Parent() == nil) {
			ctorBlocks = append(ctorBlocks, f.Blocks...)
		}
	}
	for _, b := range ctorBlocks {
		for _, in := range b.Instrs {
			ta, ok := in.(*ssa.TypeAssert)
			if !ok || !ta.CommaOk {
				continue
			}
			tname := types.TypeString(ta.AssertedType, func(p *types.Package) string { return p.Name() })
			// find the conversion applied on the ok edge: follow the extract #0 to a Convert / MakeInterface
			cls := ""
			if refs := ta.Referrers(); refs != nil {
				for _, rf := range *refs {
					ex, ok := rf.(*ssa.Extract)
					if !ok || ex.Index != 0 {
						continue
					}
					cls = convClass(ex, 0)
				}
			}
			if cls == "" {
				cls = tname // stored as is
			}
			classOf[tname] = cls
		}
	}
	if len(classOf) < 10 {
		r.Report(rule, FuncName(ctor), "type switch extraction", Undecided, fmt.Sprintf("only %d type cases recognised", len(classOf)), p.Pos(ctor.Pos()), nil, false)
	}
	// (2) cast: finite evaluation of FieldDescriptor.cast for each type name
	fd := named(cast.Signature.Recv().Type())
	var types_ []string
	for t := range classOf {
		types_ = append(types_, t)
	}
	sort.Strings(types_)
	for _, t := range types_ {
		e := &EvalEnv{P: p}
		obj := newAObj(fd, map[string]AV{"Type": avS(t), "Path": avS("F")})
		res, out := e.Eval(cast, []AV{{K: avPtr, Obj: obj}}, 0)
		construct := "cast(" + t + ") = class stored by the constructor"
		want := classOf[t]
		if want == "time.Time" {
			want = "int64"
		}
		switch {
		case out != "return" || len(res) != 1 || res[0].K != avStr:
			r.Report(rule, FuncName(cast), construct, Violated, fmt.Sprintf("the descriptor cannot cast field type %s (%s %s) although the index constructor accepts it: indexing such a field panics or every search on it fails", t, out, e.Why), p.Pos(cast.Pos()), nil, true)
		case res[0].S != want:
			r.Report(rule, FuncName(cast), construct, Violated, fmt.Sprintf("field type %s is cast to %s but the index stores it as %s: every search on such a field fails with a casting error", t, res[0].S, want), p.Pos(cast.Pos()), nil, true)
		default:
			r.Report(rule, FuncName(cast), construct, Discharged, t+" -> "+want, p.Pos(cast.Pos()), nil, true)
		}
		r.Evaluations++
	}
	// (3) class sets of valueTypeString / valueTypeFromString
	name := a.IndexedField.Obj().Name()
	vts := p.FuncByName(name + ".valueTypeString")
	vtf := p.FuncByName(name + ".valueTypeFromString")
	want := []string{"float64", "int64", "string", "uint64"}
	if vts != nil {
		var got []string
		for _, b := range vts.Blocks {
			for _, in := range b.Instrs {
				if ret, ok := in.(*ssa.Return); ok && len(ret.Results) == 1 {
					if s, ok := constString(ret.Results[0]); ok {
						got = append(got, s)
					}
				}
			}
		}
		sort.Strings(got)
		if strings.Join(got, " ") == strings.Join(want, " ") {
			r.Report(rule, FuncName(vts), "class set", Discharged, strings.Join(got, " "), p.Pos(vts.Pos()), nil, true)
		} else {
			r.Report(rule, FuncName(vts), "class set", Violated, fmt.Sprintf("classes named %v, expected %v", got, want), p.Pos(vts.Pos()), nil, true)
		}
	}
	if vtf != nil {
		got := stringSwitchLiterals(vtf)
		if strings.Join(got, " ") == strings.Join(want, " ") {
			r.Report(rule, FuncName(vtf), "class set", Discharged, strings.Join(got, " "), p.Pos(vtf.Pos()), nil, true)
		} else {
			r.Report(rule, FuncName(vtf), "class set", Violated, fmt.Sprintf("the decoder re-types classes %v, expected %v: an index of the missing class cannot be reloaded", got, want), p.Pos(vtf.Pos()), nil, true)
		}
	}
}

// convClass follows a value to the conversion that normalises it.
func convClass(v ssa.Value, depth int) string {
	if depth > 4 {
		return ""
	}
	refs := v.Referrers()
	if refs == nil {
		return ""
	}
	for _, rf := range *refs {
		switch u := rf.(type) {
		case *ssa.Convert:
			return types.TypeString(u.Type(), nil)
		case *ssa.Call:
			// k.UTC().UnixNano(): a method chain ending in an int64
			if c := convClass(u, depth+1); c != "" {
				return c
			}
			if b, ok := u.Type().Underlying().(*types.Basic); ok {
				return b.Name()
			}
		case *ssa.MakeInterface:
			return ""
		}
	}
	return ""
}

// checkTypeGuard: on both search paths a class comparison with an ErrCasting return precedes the comparator calls.
func checkTypeGuard(p *Prog, c *Closures, r *Result, rule string) {
	a := p.A
	for _, name := range []string{a.ObjIndex.Obj().Name() + ".search", "DB.searchAll"} {
		fn := p.FuncByName(name)
		if fn == nil {
			r.Report(rule, name, "type guard", Undecided, "function not found", "", nil, false)
			continue
		}
		// guard blocks: If on a string inequality whose true edge loads ErrCasting
		var guard *ssa.BasicBlock
		var guards []*ssa.BasicBlock
		for _, b := range fn.Blocks {
			ifi, ok := b.Instrs[len(b.Instrs)-1].(*ssa.If)
			if !ok {
				continue
			}
			bo, ok := ifi.Cond.(*ssa.BinOp)
			if !ok || bo.Op != token.NEQ {
				continue
			}
			if bt, ok := bo.X.Type().Underlying().(*types.Basic); !ok || bt.Info()&types.IsString == 0 {
				continue
			}
			for _, in := range b.Succs[0].Instrs {
				if ld, ok := in.(*ssa.UnOp); ok {
					if g, ok := ld.X.(*ssa.Global); ok && g.Object() == a.SentByName["ErrCasting"] {
						guard = b
						guards = append(guards, b)
					}
				}
			}
		}
		if guard == nil {
			r.Report(rule, FuncName(fn), "type guard", Violated, "no comparison of the probe's class with the field's class returning ErrCasting: the comparators' unchecked type assertions would panic on a mistyped search value", p.Pos(fn.Pos()), nil, true)
			continue
		}
		// every call to a comparator / range function (methods of fieldIndex / indexedField taking an *indexedField) is dominated by the guard's false edge
		bad := ""
		for _, b := range fn.Blocks {
			for _, in := range b.Instrs {
				call, ok := in.(*ssa.Call)
				if !ok {
					continue
				}
				f := call.Call.StaticCallee()
				if f == nil || f.Signature.Recv() == nil {
					continue
				}
				rn := named(f.Signature.Recv().Type())
				if rn != a.FieldIndex && rn != a.IndexedField {
					continue
				}
				takesEntry := false
				for i := 0; i < f.Signature.Params().Len(); i++ {
					if named(f.Signature.Params().At(i).Type()) == a.IndexedField {
						takesEntry = true
					}
				}
				if !takesEntry {
					continue
				}
				// some guard lies on every path to the call (its block dominates the call) and its mismatch edge does
				// not lead to the call: a guard nested under another condition (e.g. "only when the field has a
				// descriptor") does not protect the call on the paths that skip it
				protected := false
				for _, g := range guards {
					if (g.Dominates(b) || g == b) && !blockReaches(g.Succs[0], b) {
						protected = true
					}
				}
				if !protected {
					bad = FuncName(f)
				}
			}
		}
		if bad == "" {
			r.Report(rule, FuncName(fn), "type guard", Discharged, "", p.Pos(fn.Pos()), nil, true)
		} else {
			r.Report(rule, FuncName(fn), "type guard", Violated, "call to "+bad+" is reachable on a path that skips every class guard: its unchecked type assertions panic on a search value of another class (or the mismatch goes unreported)", p.Pos(fn.Pos()), nil, true)
		}
	}
}

// checkAndOrPlumbing: structural facts about And / Or / Len / Delete / Constrain.
func checkAndOrPlumbing(p *Prog, c *Closures, r *Result, rule string) {
	a := p.A
	srch := p.FuncByName("DB.search")
	argOfSearchCall := func(fn *ssa.Function) (ssa.Value, bool) { return dispatcherConstraint(p, fn, srch) }
	if and := p.FuncByName("Search.And"); and != nil && srch != nil {
		v, ok := argOfSearchCall(and)
		_, f, _ := loadedField(v)
		if ok && f == a.SearchFields {
			r.Report(rule, FuncName(and), "constraint = receiver's result", Discharged, "", p.Pos(and.Pos()), nil, true)
		} else {
			r.Report(rule, FuncName(and), "constraint = receiver's result", Violated, "And does not pass the receiver's result slice as the constraint: the result would not be the intersection", p.Pos(and.Pos()), nil, true)
		}
	}
	if or := p.FuncByName("Search.Or"); or != nil && srch != nil {
		v, ok := argOfSearchCall(or)
		cst, isC := v.(*ssa.Const)
		if ok && isC && cst.Value == nil {
			r.Report(rule, FuncName(or), "no constraint", Discharged, "", p.Pos(or.Pos()), nil, true)
		} else {
			r.Report(rule, FuncName(or), "no constraint", Violated, "Or constrains its right-hand search: the result would not be the union", p.Pos(or.Pos()), nil, true)
		}
	}
	if ln := p.FuncByName("Search.Len"); ln != nil {
		ok := false
		for _, b := range ln.Blocks {
			for _, in := range b.Instrs {
				if call, isC := in.(*ssa.Call); isC {
					if bi, isB := call.Call.Value.(*ssa.Builtin); isB && bi.Name() == "len" {
						if _, f, _ := loadedField(call.Call.Args[0]); f == a.SearchFields {
							ok = true
						}
					}
				}
			}
		}
		if ok {
			r.Report(rule, FuncName(ln), "Len = len(result slice)", Discharged, "", p.Pos(ln.Pos()), nil, true)
		} else {
			r.Report(rule, FuncName(ln), "Len = len(result slice)", Violated, "Len is not the length of the slice the iterator walks", p.Pos(ln.Pos()), nil, true)
		}
	}
	if cs := p.FuncByName(a.FieldIndex.Obj().Name() + ".Constrain"); cs != nil {
		// the insert into the new index is on the hit edge of a lookup in objectIds keyed by the entry's object id
		ok := false
		for _, b := range cs.Blocks {
			for _, in := range b.Instrs {
				lk, isL := in.(*ssa.Lookup)
				if !isL || !lk.CommaOk {
					continue
				}
				if n, f, _ := loadedField(lk.X); n == a.FieldIndex && f == a.FIObjectIds {
					if _, kf, _ := loadedField(lk.Index); kf == a.IFObjectId {
						ok = true
					}
				}
			}
		}
		if ok {
			r.Report(rule, FuncName(cs), "constrained index built from entries found by object id", Discharged, "", p.Pos(cs.Pos()), nil, true)
		} else {
			r.Report(rule, FuncName(cs), "constrained index built from entries found by object id", Violated, "Constrain does not look the constraining entries up by object id in the live field index", p.Pos(cs.Pos()), nil, true)
		}
	}
	if del := p.FuncByName("Search.Delete"); del != nil {
		it := p.FuncByName("Search.Iterator")
		dob := p.FuncByName("DB.DeleteObjects")
		okIt, okDel := false, false
		for _, b := range del.Blocks {
			for _, in := range b.Instrs {
				if call, isC := in.(*ssa.Call); isC {
					switch call.Call.StaticCallee() {
					case it:
						okIt = true
					case dob:
						okDel = true
					}
				}
			}
		}
		if okIt && okDel {
			r.Report(rule, FuncName(del), "deletes the iterator of the result", Discharged, "", p.Pos(del.Pos()), nil, true)
		} else {
			r.Report(rule, FuncName(del), "deletes the iterator of the result", Violated, "Search.Delete does not delete exactly the iterator built from its result", p.Pos(del.Pos()), nil, true)
		}
	}
}

// checkRegexArm: origin analysis of the result of the field-index pattern search.
func checkRegexArm(p *Prog, r *Result, rule string) {
	a := p.A
	isMatch := func(v ssa.Value) bool {
		c, ok := v.(*ssa.Call)
		if !ok {
			return false
		}
		f := c.Call.StaticCallee()
		return f != nil && f.Name() == "MatchString" && f.Signature.Recv() != nil && isNamedFrom(f.Signature.Recv().Type(), "regexp", "Regexp")
	}
	n := 0
	for _, fn := range p.Funcs {
		if fn.Parent() != nil || !recvIs(fn, a.FieldIndex) {
			continue
		}
		matches := false
		for _, b := range fn.Blocks {
			for _, in := range b.Instrs {
				if v, ok := in.(ssa.Value); ok && isMatch(v) {
					matches = true
				}
			}
		}
		if !matches {
			continue
		}
		n++
		// which result is the entry slice
		ri := -1
		for i := 0; i < fn.Signature.Results().Len(); i++ {
			if sl, ok := fn.Signature.Results().At(i).Type().Underlying().(*types.Slice); ok && named(sl.Elem()) == a.IndexedField {
				ri = i
			}
		}
		if ri < 0 {
			r.Report(rule, FuncName(fn), "result entries are matched entries", Undecided, "the pattern search does not return an entry slice", p.Pos(fn.Pos()), nil, true)
			continue
		}
		bad := ""
		var badAt ssa.Instruction
		seen := map[ssa.Value]bool{}
		var origin func(v ssa.Value, at ssa.Instruction)
		origin = func(v ssa.Value, at ssa.Instruction) {
			if seen[v] || bad != "" {
				return
			}
			seen[v] = true
			switch x := v.(type) {
			case *ssa.Const:
				if !x.IsNil() {
					bad = "a constant"
				}
			case *ssa.MakeSlice:
			case *ssa.Slice:
				if al, ok := x.X.(*ssa.Alloc); ok {
					if arr, ok := al.Type().(*types.Pointer).Elem().Underlying().(*types.Array); ok && arr.Len() == 0 {
						return // make([]T, 0)
					}
				}
				bad, badAt = "a sub-slice ("+x.String()+")", at
			case *ssa.Phi:
				for _, e := range x.Edges {
					origin(e, x)
				}
			case *ssa.UnOp:
				// a named result kept in a cell: follow the stores
				if al, ok := x.X.(*ssa.Alloc); ok && al.Referrers() != nil {
					for _, rf := range *al.Referrers() {
						if st, ok := rf.(*ssa.Store); ok && st.Addr == al {
							origin(st.Val, st)
						}
					}
					return
				}
				bad, badAt = "a loaded value", at
			case *ssa.Call:
				if bi, ok := x.Call.Value.(*ssa.Builtin); ok && bi.Name() == "append" {
					origin(x.Call.Args[0], x)
					// the appended entry: guarded by MatchString on the true edge
					guarded := false
					for d := x.Block(); d != nil; d = d.Idom() {
						ifi, ok := d.Instrs[len(d.Instrs)-1].(*ssa.If)
						if !ok || d == x.Block() {
							continue
						}
						if isMatch(ifi.Cond) && (d.Succs[0] == x.Block() || d.Succs[0].Dominates(x.Block())) && len(d.Succs[0].Preds) == 1 {
							guarded = true
						}
					}
					if !guarded {
						bad, badAt = "an append that is not under a successful MatchString", x
					}
					return
				}
				bad, badAt = "the result of a call to "+FuncName(x.Call.StaticCallee()), x
			case *ssa.Extract:
				bad, badAt = "the result of a call", at
			default:
				bad, badAt = "a value of unknown origin", at
			}
		}
		for _, b := range fn.Blocks {
			if ret, ok := b.Instrs[len(b.Instrs)-1].(*ssa.Return); ok && ri < len(ret.Results) {
				origin(ret.Results[ri], ret)
			}
		}
		if bad == "" {
			r.Report(rule, FuncName(fn), "result entries are matched entries", Discharged, "", p.Pos(fn.Pos()), nil, true)
		} else {
			where := p.Pos(fn.Pos())
			if badAt != nil {
				where = p.Pos(badAt.Pos())
			}
			r.Report(rule, FuncName(fn), "result entries are matched entries", Violated, "the indexed pattern search can return "+bad+": entries that were not matched against the pattern (or not all that match) reach the result, so '~=' on an indexed field no longer means what it means on an unindexed one", where, nil, true)
		}
	}
	if n == 0 {
		r.Report(rule, "-", "pattern search of the field index", Violated, "no field-index function evaluates a pattern with MatchString", "", nil, true)
	}
}

// forwardsToDispatcher: g does nothing but call the dispatcher, handing its own parameter on as the constraint; the
// result is the position of that parameter in a call of g (receiver included), or -1.
func forwardsToDispatcher(p *Prog, g, srch *ssa.Function) int {
	if g == nil || g.Blocks == nil || !inSod(p, g) || len(g.Blocks) != 1 {
		return -1
	}
	pos := -1
	for _, in := range g.Blocks[0].Instrs {
		switch u := in.(type) {
		case *ssa.Call:
			if u.Call.StaticCallee() != srch {
				return -1
			}
			par, ok := u.Call.Args[len(u.Call.Args)-1].(*ssa.Parameter)
			if !ok {
				return -1
			}
			for i, q := range g.Params {
				if q == par {
					pos = i
				}
			}
		case *ssa.Return, *ssa.UnOp, *ssa.FieldAddr, *ssa.DebugRef:
		default:
			return -1
		}
	}
	return pos
}

// dispatcherConstraint: the constraint argument of fn's call of the search dispatcher, made directly or through a
// forwarding helper.
func dispatcherConstraint(p *Prog, fn, srch *ssa.Function) (ssa.Value, bool) {
	for _, b := range fn.Blocks {
		for _, in := range b.Instrs {
			call, ok := in.(*ssa.Call)
			if !ok {
				continue
			}
			g := call.Call.StaticCallee()
			if g == srch {
				args := call.Call.Args
				return args[len(args)-1], true
			}
			if k := forwardsToDispatcher(p, g, srch); k >= 0 && k < len(call.Call.Args) {
				return call.Call.Args[k], true
			}
		}
	}
	return nil, false
}
