package main

import (
	"fmt"
	"go/ast"
	"go/token"
	"go/types"
	"path/filepath"
	"reflect"
	"sort"
	"strings"

	"golang.org/x/tools/go/ssa"
)

// reachFrom: sod functions statically reachable from the given roots (calls and closures).
func reachFrom(p *Prog, roots []*ssa.Function) map[*ssa.Function]bool {
	seen := map[*ssa.Function]bool{}
	var visit func(f *ssa.Function)
	visit = func(f *ssa.Function) {
		if f == nil || seen[f] || f.Blocks == nil || !inSod(p, f) {
			return
		}
		seen[f] = true
		for _, b := range f.Blocks {
			for _, in := range b.Instrs {
				if ci, ok := in.(ssa.CallInstruction); ok {
					visit(ci.Common().StaticCallee())
					if mc, ok := ci.Common().Value.(*ssa.MakeClosure); ok {
						visit(mc.Fn.(*ssa.Function))
					}
				}
				if mc, ok := in.(*ssa.MakeClosure); ok {
					visit(mc.Fn.(*ssa.Function))
				}
			}
		}
	}
	for _, f := range roots {
		visit(f)
	}
	return seen
}

// dataPathFuncs: functions that handle decoded file data, directory entries or search arguments.
func dataPathFuncs(p *Prog) map[*ssa.Function]bool {
	var roots []*ssa.Function
	for _, f := range p.Funcs {
		if f.Name() == "UnmarshalJSON" {
			roots = append(roots, f)
		}
	}
	for _, n := range []string{"DB.loadSchema", "uuidsFromDir", "Schema.control", "unmarshalJsonFile", "DB.search", "DB.searchAll", "Search.And", "Search.Or", "Search.Operation", "Search.Iterator", "Search.Collect", "Search.One", "DB.Repair", "DB.Control"} {
		if f := p.FuncByName(n); f != nil {
			roots = append(roots, f)
		}
	}
	return reachFrom(p, roots)
}

func panicDesc(p *Prog, pn *ssa.Panic) string {
	v := pn.X
	for {
		switch x := v.(type) {
		case *ssa.MakeInterface:
			v = x.X
			continue
		case *ssa.ChangeInterface:
			v = x.X
			continue
		}
		break
	}
	if s, ok := constString(v); ok {
		return fmt.Sprintf("panic(%q)", s)
	}
	if ld, ok := v.(*ssa.UnOp); ok {
		if g, ok := ld.X.(*ssa.Global); ok {
			return "panic(" + g.Name() + ")"
		}
	}
	if call, ok := v.(*ssa.Call); ok {
		if f := call.Call.StaticCallee(); f != nil && (classifyExternal(f) == xErrorf || (f.Object() != nil && f.Object().Pkg() != nil && f.Object().Pkg().Path() == "fmt")) {
			fmtc := ""
			if len(call.Call.Args) > 0 {
				if cs, ok := constString(call.Call.Args[0]); ok {
					fmtc = fmt.Sprintf("%q", cs)
				}
			}
			return "panic(" + f.Name() + "(" + fmtc + "))"
		}
	}
	// an error value produced by a call
	src := v
	if ex, ok := src.(*ssa.Extract); ok {
		src = ex.Tuple
	}
	if phi, ok := src.(*ssa.Phi); ok && len(phi.Edges) > 0 {
		src = phi.Edges[0]
		if ex, ok := src.(*ssa.Extract); ok {
			src = ex.Tuple
		}
	}
	if call, ok := src.(*ssa.Call); ok {
		if f := call.Call.StaticCallee(); f != nil {
			switch classifyExternal(f) {
			case xJsonMarshal:
				return "panic(error of json.Marshal)"
			case xUuidNew:
				return "panic(error of uuid.NewRandom)"
			}
			if inSod(p, f) {
				cl := closuresOf(p).Of(f)
				if cl.Has(EFsWObj) && cl.Has(EFsWSchema) {
					return "panic(error of a flush-and-commit call)"
				}
				return "panic(error of a package call)"
			}
			return "panic(error of " + f.Name() + ")"
		}
	}
	return "panic(value)"
}

// ownerName: a rename-stable name for the place of a construct: the receiver type for methods, "goroutine" for
// goroutine closures, else the function name.
func ownerName(p *Prog, fn *ssa.Function) string {
	if fn.Parent() != nil {
		return "goroutine of " + strings.TrimPrefix(ownerName(p, fn.Parent()), "goroutine of ")
	}
	if p.GoOnly[fn] {
		// a named function that only ever runs on a spawned goroutine is part of that goroutine's body
		return "goroutine of " + plainOwner(fn)
	}
	return plainOwner(fn)
}

func plainOwner(fn *ssa.Function) string {
	if fn.Signature.Recv() != nil {
		if n := named(fn.Signature.Recv().Type()); n != nil {
			return "(*" + n.Obj().Name() + ")"
		}
	}
	return "func"
}

// ---- C19 ------------------------------------------------------------------------------

func checkC19(p *Prog, r *Result, tier string) {
	r.Rule("C19.R1", "explicit panics: every panic statement reachable from the API or the decoders has a disposition: documented (misuse of Assign targets), internal invariant with a stated reason, vetted by another rule, or known finding; any other panic is a violation", 12)
	r.Rule("C19.R2", "unchecked type assertions on the data path (decoded file content, directory entries, search arguments) are either preceded by a comma-ok assertion of the same value and type, or vetted with a stated reason", 4)
	r.Rule("C19.R3", "bounds: every index or slice expression on the data path that the gc compiler cannot prove in range (its own bounds-check-elimination pass is the oracle) is dominated by a length test of the same container, or vetted with a stated reason", 6)
	r.Rule("C19.R4", "nullable decoded pointers are checked before use: the loader tests the decoded schema for nil; the decoders test the elements of the decoded field-index map and of the decoded entry slice for nil", 3)
	r.Rule("C19.R7", "reflect on the search arguments: on the functions reachable from the search dispatcher (the deep clone of stored objects excepted) every reflect.Value.FieldByName() is unreachable unless the kind of its receiver was compared with reflect.Struct, and every reflect.Value.Interface() is unreachable without a validity test of its receiver (CanInterface / CanSet / IsValid on the same value, or IsNil known false on the value it is the Elem of); paths are enumerated over the CFG with the branch facts (kind comparisons of one value are correlated)", 2)
	checkReflectInterface(p, r, "C19.R7")
	r.Rule("C19.R8", "the decoded index is tied to the descriptors before publication: the schema control (or a helper it calls) looks up the field index of every indexed descriptor and compares its cast with the descriptor's; the comparators' and the insertion's type assertions rely on that cast", 1)
	checkIndexMatchesDescriptors(p, r, "C19.R8")
	r.Rule("C19.R9", "no nil map survives decoding: for every map of the object index the decoder contains a make of that map (a JSON null leaves a decoded map nil)", 3)
	checkDecodedMaps(p, r, "C19.R9")
	r.Rule("C19.R10", "values the os package returns next to an error (FileInfo, *File) are used as a receiver only where the error of the same call is known to be nil (dominated by the nil edge of a test of that error)", 2)
	checkOsResultsUnderNilErr(p, r, "C19.R10")
	r.Rule("C19.R5", "an errored search yields nothing: every Search method that produces objects or deletes reads the search's error before it reads the result slice", 5)
	r.NotDecided = []string{"hangs", "panics that depend only on internal invariants of the bisection arithmetic (listed as 'internal', not judged)", "panics inside the standard library on hostile input"}
	c := computeClosures(p)
	a := p.A
	data := dataPathFuncs(p)
	var apiAndDecoders []*ssa.Function
	apiAndDecoders = append(apiAndDecoders, p.Roots()...)
	for _, f := range p.Funcs {
		if f.Name() == "UnmarshalJSON" || f.Name() == "MarshalJSON" {
			apiAndDecoders = append(apiAndDecoders, f)
		}
	}
	reachable := reachFrom(p, apiAndDecoders)

	// R1
	type disp struct{ kind, why string }
	table := map[string]disp{
		`func/panic("target type must be a *sod.Object")`:                       {"documented", "the Assign target must be a *sod.Object (documented misuse)"},
		`func/panic("target type must be *[]sod.Object")`:                       {"documented", "the Assign target must be a *[]sod.Object (documented misuse)"},
		`(*Schema)/panic("target must be a slice pointer")`:                     {"documented", "the AssignIndex target must be a slice pointer (documented misuse)"},
		`(*Constraints)/panic("interface must be a pointer")`:                   {"documented", "only reachable with a pointer (&value); documented contract of the exported method"},
		`(*FieldDescriptor)/panic(Sprintf("unkwnown type to cast %s"))`:         {"internal", "an indexed struct field of an unsupported Go type: a property of the program's struct definition, not of data"},
		`func/panic(Sprintf("%s is not assignable to %s"))`:                     {"internal", "assignability of a value to its own type: cannot fail for values produced by reflect.ValueOf"},
		`func/panic(error of json.Marshal)`:                                     {"internal", "OrPanic helper: serialisation of an object that already passed the serialisation check (C06: ok(SERIALISE)) or of a descriptor"},
		`func/panic(error of uuid.NewRandom)`:                                   {"internal", "entropy source failure"},
		`(*` + a.IndexedField.Obj().Name() + `)/panic(Errorf("%w %T"))`:         {"vetted", "class invariant: values reach the comparators only through the constructor's normalisation or the decoder's validation against the cast (C02.R3, C19.R2); classes of both operands are compared first (C02.R4)"},
		`(*` + a.IndexedField.Obj().Name() + `)/panic(ErrUnkownSearchOperator)`: {"vetted", "the operator is validated against the same literal set by every caller (C12.R2)"},
		`(*` + a.FieldIndex.Obj().Name() + `)/panic("key not found")`:           {"known", "F9f: a schema whose field index has the right size but foreign object ids panics on delete/update"},
		`(*` + a.FieldIndex.Obj().Name() + `)/panic("object id not found")`:     {"known", "F9f: a schema whose field index has the right size but foreign object ids panics on delete/update"},
		`goroutine of (*DB)/panic(error of a flush-and-commit call)`:            {"known", "F9g: a storage error during a background flush panics (the API has no channel for background errors)"},
	}
	var fnames []string
	for f := range reachable {
		fnames = append(fnames, FuncName(f))
	}
	sort.Strings(fnames)
	byName := map[string]*ssa.Function{}
	for f := range reachable {
		byName[FuncName(f)] = f
	}
	for _, name := range fnames {
		f := byName[name]
		for _, b := range f.Blocks {
			for _, in := range b.Instrs {
				pn, ok := in.(*ssa.Panic)
				if !ok {
					continue
				}
				owner := ownerName(p, f)
				construct := panicDesc(p, pn)
				d, ok := table[owner+"/"+construct]
				switch {
				case !ok:
					r.Report("C19.R1", owner, construct, Violated, "a panic statement (in "+name+") reachable from the API / the decoders without a disposition: if it can be triggered by file content or arguments it must be an error", p.Pos(in.Pos()), nil, true)
				case d.kind == "known":
					r.Report("C19.R1", owner, construct, Violated, d.why+" (in "+name+")", p.Pos(in.Pos()), nil, true)
				default:
					r.Report("C19.R1", owner, construct, Discharged, d.kind+": "+d.why, p.Pos(in.Pos()), nil, true)
				}
			}
		}
	}

	// R2
	vettedAssertOf := func(f *ssa.Function) string {
		switch {
		case recvIs(f, a.IndexedField) && len(paramTypes(f)) == 1 && named(f.Signature.Params().At(0).Type()) == a.IndexedField && strings.Join(resultTypes(f), ",") == "bool":
			return "operand classes are equal (C02.R4) and values are normalised / validated (C02.R3, decoder)"
		case recvIs(f, a.Iterator) && len(paramTypes(f)) == 0 && strings.Join(resultTypes(f), ",") == "sod.Object":
			return "reflect.New of the object's own type implements Object"
		case f == p.FuncByName(named(a.FIConstraints.Type()).Obj().Name()+".transform"):
			return "guarded by Kind()==String; a named string type is a property of the struct definition"
		case f.Name() == "ToObjectSlice" || (f.Parent() != nil && f.Parent().Name() == "ToObjectChan"):
			return "documented helper contract"
		}
		return ""
	}
	vettedAssert := map[string]string{}
	for _, name := range fnames {
		if why := vettedAssertOf(byName[name]); why != "" {
			vettedAssert[name] = why
		}
	}
	for _, name := range fnames {
		f := byName[name]
		if !data[f] && vettedAssert[name] == "" {
			continue
		}
		for _, b := range f.Blocks {
			for _, in := range b.Instrs {
				ta, ok := in.(*ssa.TypeAssert)
				if !ok || ta.CommaOk {
					continue
				}
				construct := "assert " + types.TypeString(ta.AssertedType, func(pk *types.Package) string { return pk.Name() })
				guarded := false
				for d := b; d != nil; d = d.Idom() {
					for _, di := range d.Instrs {
						if t2, ok := di.(*ssa.TypeAssert); ok && t2.CommaOk && sameValue(t2.X, ta.X) && types.Identical(t2.AssertedType, ta.AssertedType) {
							guarded = true
						}
					}
				}
				// v.Interface().(string) where Kind()==String of the same reflect value was established
				kindGuard := false
				if bt, ok := ta.AssertedType.Underlying().(*types.Basic); ok && bt.Kind() == types.String {
					if ic, ok := ta.X.(*ssa.Call); ok {
						if g := ic.Call.StaticCallee(); g != nil && g.Name() == "Interface" && g.Signature.Recv() != nil && isNamedFrom(g.Signature.Recv().Type(), "reflect", "Value") && len(ic.Call.Args) > 0 {
							rv := ic.Call.Args[0]
							for d := b.Idom(); d != nil; d = d.Idom() {
								ifi, ok := d.Instrs[len(d.Instrs)-1].(*ssa.If)
								if !ok {
									continue
								}
								bo, ok := ifi.Cond.(*ssa.BinOp)
								if !ok || bo.Op != token.EQL || !(d.Succs[0] == b || d.Succs[0].Dominates(b)) {
									continue
								}
								for i, side := range []ssa.Value{bo.X, bo.Y} {
									other := []ssa.Value{bo.Y, bo.X}[i]
									kc, ok := side.(*ssa.Call)
									if !ok || kc.Call.StaticCallee() == nil || kc.Call.StaticCallee().Name() != "Kind" || len(kc.Call.Args) == 0 || kc.Call.Args[0] != rv {
										continue
									}
									if cst, ok := other.(*ssa.Const); ok && cst.Value != nil && cst.Value.String() == fmt.Sprint(int(reflect.String)) {
										kindGuard = true
									}
								}
							}
						}
					}
				}
				switch {
				case guarded:
					r.Report("C19.R2", name, construct, Discharged, "preceded by a comma-ok assertion of the same value", p.Pos(in.Pos()), nil, true)
				case kindGuard:
					r.Report("C19.R2", name, construct, Discharged, "guarded by Kind()==String of the same reflect value; a named string type is a property of the struct definition", p.Pos(in.Pos()), nil, true)
				case vettedAssert[name] != "":
					r.Report("C19.R2", name, construct, Discharged, "vetted: "+vettedAssert[name], p.Pos(in.Pos()), nil, true)
				default:
					r.Report("C19.R2", name, construct, Violated, "an unchecked type assertion on the data path: decoded content or an argument of another dynamic type panics here", p.Pos(in.Pos()), nil, true)
				}
			}
		}
	}

	// R3
	bce, err := gcBCE(p.Repo)
	if err != nil {
		r.Report("C19.R3", "-", "compiler bounds-check listing", Undecided, err.Error(), "", nil, false)
	}
	vettedBoundsOf := func(f *ssa.Function, in ssa.Instruction, cont ssa.Value, constIdx string) string {
		// element 0 of what strings.Split / SplitN returned
		if constIdx == "0" {
			src := cont
			if call, ok := src.(*ssa.Call); ok {
				if g := call.Call.StaticCallee(); g != nil && g.Object() != nil && g.Object().Pkg() != nil && g.Object().Pkg().Path() == "strings" && (g.Name() == "Split" || g.Name() == "SplitN") {
					return "strings.Split/SplitN return at least one element (element 0)"
				}
			}
			if f == p.FuncByName("Search.one") {
				return "the result has at least one entry (Len()>0 checked) and collect returned without error with limit 1"
			}
			if recvIs(f, named(a.FIConstraints.Type())) && strings.Join(paramTypes(f), ",") == "[]string,reflect.Value" {
				return "the path comes from strings.Split (at least one element); the tail is taken only when len>1"
			}
		}
		if f.Signature.Recv() == nil && sigIs(f, "string", "string") && f.Name() != "" {
			// rune-wise string conversion: index i ranges over the string, i+1 is guarded by i < len-1
			for _, b := range f.Blocks {
				for _, i2 := range b.Instrs {
					if bo, ok := i2.(*ssa.BinOp); ok && bo.Op == token.LSS {
						if b2, ok := bo.Y.(*ssa.BinOp); ok && b2.Op == token.SUB {
							return "index i ranges over the string, i+1 is guarded by i < len-1"
						}
					}
				}
			}
		}
		return ""
	}
	internalBounds := "(*" + a.FieldIndex.Obj().Name() + ")."
	unproven := 0
	for _, name := range fnames {
		f := byName[name]
		for _, b := range f.Blocks {
			for _, in := range b.Instrs {
				var cont ssa.Value
				switch v := in.(type) {
				case *ssa.IndexAddr:
					cont = v.X
				case *ssa.Index:
					cont = v.X
				case *ssa.Slice:
					cont = v.X
				case *ssa.Lookup:
					if _, isMap := v.X.Type().Underlying().(*types.Map); !isMap {
						cont = v.X
					}
				}
				if cont == nil || !in.Pos().IsValid() {
					continue
				}
				pos := p.Fset.Position(in.Pos())
				if !bce[filepath.Base(pos.Filename)+":"+fmt.Sprint(pos.Line)] {
					continue // proven in range by the compiler
				}
				if al, ok := cont.(*ssa.Alloc); ok {
					if _, isArr := al.Type().Underlying().(*types.Pointer).Elem().Underlying().(*types.Array); isArr {
						continue // constant index into a fixed-size (varargs) array
					}
				}
				unproven++
				construct := fmt.Sprintf("index of %s", shortVal(cont))
				constIdx := ""
				if ia, ok := in.(*ssa.IndexAddr); ok {
					if cst, ok := ia.Index.(*ssa.Const); ok && cst.Value != nil {
						construct = fmt.Sprintf("index [%s] of %s", cst.Value.String(), shortVal(cont))
						constIdx = cst.Value.String()
					}
				}
				vetted := vettedBoundsOf(f, in, cont, constIdx)
				switch {
				case lenGuarded(in, cont):
					r.Report("C19.R3", name, construct, Discharged, "dominated by a length test of the same container", p.Pos(in.Pos()), nil, true)
				case positionFound(in, cont):
					r.Report("C19.R3", name, construct, Discharged, "the position is the result of an Index* search in the same string, tested for 'not found' on a dominating branch", p.Pos(in.Pos()), nil, true)
				case madeForRange(f, in, cont):
					r.Report("C19.R3", name, construct, Discharged, "the container was made with the length of the slice whose range index is used (position-for-position fill)", p.Pos(in.Pos()), nil, true)
				case strings.HasPrefix(name, internalBounds) && !strings.Contains(name, "UnmarshalJSON"):
					r.Report("C19.R3", name, construct, Discharged, "internal: position arithmetic on the index itself (bisection / shifting); not judged (C02 not-decided clause)", p.Pos(in.Pos()), nil, false)
				case vetted != "":
					r.Report("C19.R3", name, construct, Discharged, "vetted: "+vetted, p.Pos(in.Pos()), nil, true)
				case !data[f]:
					r.Report("C19.R3", name, construct, Discharged, "not on the data path", p.Pos(in.Pos()), nil, false)
				default:
					r.Report("C19.R3", name, construct, Violated, "the compiler cannot prove this index in range and no length test of the container dominates it: decoded content, a directory entry or an argument of unexpected shape panics here", p.Pos(in.Pos()), nil, true)
				}
			}
		}
	}
	r.Extra["compiler_unproven_bounds_total"] = len(bce)
	r.Extra["unproven_bounds_in_reachable_sod_code"] = unproven

	// R4
	checkNilDecoded(p, r, "C19.R4")

	// R5
	exempt := map[string]bool{"(*Search).Len": true, "(*Search).Expects": true, "(*Search).ExpectsZeroOrN": true, "(*Search).Err": true, "(*Search).Reverse": true, "(*Search).Limit": true}
	var jobs []exploreJob
	for _, f := range apiRoots(p) {
		if f.Parent() == nil && named(recvType(f)) == a.Search && !exempt[FuncName(f)] {
			jobs = append(jobs, exploreJob{f, Valuation{Cache: triNo, Async: triNo}})
			r.Entries = append(r.Entries, FuncName(f))
		}
	}
	exploreAll(p, c, jobs, EffSet{}, r, func(j exploreJob) Listener {
		return &effListener{p: p, r: r, root: j.root, val: j.val, onEvent: func(l *effListener, x *Explorer, st *State, ev *Event) {
			if ev.Kind != EvAccess || ev.Write || ev.Struct != a.Search {
				return
			}
			switch ev.Field {
			case a.SearchErr:
				st.User |= 1
			case a.SearchFields:
				if exempt[FuncName(st.top().fn)] || onlyLenOf(ev.Instr) {
					return // only the length is read there
				}
				fn := FuncName(l.root)
				if st.User&1 != 0 {
					l.ok("C19.R5", fn, "error consulted before the result slice", l.p.Pos(ev.Instr.Pos()))
				} else {
					l.bad("C19.R5", fn, "error consulted before the result slice", "the method reads the search's result slice on a path where it did not look at the search's error first: a query that could not be evaluated could yield objects or deletions", l.p.Pos(ev.Instr.Pos()), x, st, ev.Instr)
				}
			}
		}}
	}, nil)
}

// onlyLenOf: the loaded value is used for its length only.
func onlyLenOf(in ssa.Instruction) bool {
	if c, ok := in.(*ssa.Call); ok {
		if bi, ok := c.Call.Value.(*ssa.Builtin); ok && bi.Name() == "len" {
			return true
		}
	}
	ld, ok := in.(*ssa.UnOp)
	if !ok || ld.Referrers() == nil {
		return false
	}
	n := 0
	for _, rf := range *ld.Referrers() {
		switch u := rf.(type) {
		case *ssa.DebugRef:
		case *ssa.Call:
			if bi, ok := u.Call.Value.(*ssa.Builtin); ok && bi.Name() == "len" {
				n++
				continue
			}
			return false
		default:
			return false
		}
	}
	return n > 0
}

func init() { register("C19", checkC19) }

func shortVal(v ssa.Value) string {
	if n, f, _ := loadedField(v); n != nil {
		return n.Obj().Name() + "." + f.Name()
	}
	if v.Name() != "" {
		if pr, ok := v.(*ssa.Parameter); ok {
			return "parameter " + pr.Name()
		}
	}
	return types.TypeString(v.Type(), func(pk *types.Package) string { return pk.Name() })
}

func sameValue(a, b ssa.Value) bool {
	if a == b {
		return true
	}
	na, fa, ba := loadedField(a)
	nb, fb, bb := loadedField(b)
	if na != nil && na == nb && fa == fb && ba == bb {
		return true
	}
	// two loads of the same local variable (a slice whose address was taken is re-loaded at every use)
	if la, ok := a.(*ssa.UnOp); ok && la.Op == token.MUL {
		if lb, ok := b.(*ssa.UnOp); ok && lb.Op == token.MUL {
			if al, ok := la.X.(*ssa.Alloc); ok && la.X == lb.X && !al.Heap || (ok && la.X == lb.X) {
				return true
			}
		}
	}
	return false
}

// positionFound: every position used by the instruction is i or i+1 where i is what strings/bytes Index* (IndexByte,
// LastIndex, IndexRune, ...) returned for the same container, and some dominating branch compares i with 0 or -1.
func positionFound(at ssa.Instruction, cont ssa.Value) bool {
	var idx []ssa.Value
	switch v := at.(type) {
	case *ssa.Slice:
		for _, x := range []ssa.Value{v.Low, v.High, v.Max} {
			if x != nil {
				idx = append(idx, x)
			}
		}
	case *ssa.IndexAddr:
		idx = append(idx, v.Index)
	case *ssa.Index:
		idx = append(idx, v.Index)
	case *ssa.Lookup:
		idx = append(idx, v.Index)
	}
	if len(idx) == 0 {
		return false
	}
	for _, x := range idx {
		if c, ok := x.(*ssa.Const); ok && c.Value != nil && c.Value.String() == "0" {
			continue
		}
		if bo, ok := x.(*ssa.BinOp); ok && bo.Op == token.ADD {
			if c, ok := bo.Y.(*ssa.Const); ok && c.Value != nil && c.Value.String() == "1" {
				x = bo.X
			}
		}
		call, ok := x.(*ssa.Call)
		if !ok {
			return false
		}
		g := call.Call.StaticCallee()
		if g == nil || g.Object() == nil || g.Object().Pkg() == nil || (g.Object().Pkg().Path() != "strings" && g.Object().Pkg().Path() != "bytes") || !(strings.HasPrefix(g.Name(), "Index") || strings.HasPrefix(g.Name(), "LastIndex")) {
			return false
		}
		if len(call.Call.Args) == 0 || !sameValue(call.Call.Args[0], cont) {
			return false
		}
		tested := false
		b := at.Block()
		for d := b.Idom(); d != nil; d = d.Idom() {
			ifi, ok := d.Instrs[len(d.Instrs)-1].(*ssa.If)
			if !ok {
				continue
			}
			bo, ok := ifi.Cond.(*ssa.BinOp)
			if !ok || bo.X != ssa.Value(call) {
				continue
			}
			if c, ok := bo.Y.(*ssa.Const); ok && c.Value != nil && (c.Value.String() == "0" || c.Value.String() == "-1") {
				tested = true
			}
		}
		if !tested {
			return false
		}
	}
	return true
}

// lengthSourceOf: the slice S such that cont was made with make(T, len(S)): directly, or as the member of an object
// built by a constructor that stores that parameter into the member (and nothing else into it).
func lengthSourceOf(fn *ssa.Function, cont ssa.Value, depth int) ssa.Value {
	switch v := cont.(type) {
	case *ssa.MakeSlice:
		if call, ok := v.Len.(*ssa.Call); ok {
			if bi, ok := call.Call.Value.(*ssa.Builtin); ok && bi.Name() == "len" {
				return call.Call.Args[0]
			}
		}
	case *ssa.UnOp:
		if v.Op != token.MUL || depth <= 0 {
			return nil
		}
		fa, ok := v.X.(*ssa.FieldAddr)
		if !ok {
			return nil
		}
		// the member is not assigned in this function
		for _, b := range fn.Blocks {
			for _, in := range b.Instrs {
				if st, ok := in.(*ssa.Store); ok {
					if fa2, ok := st.Addr.(*ssa.FieldAddr); ok && fa2.Field == fa.Field && types.Identical(fa2.X.Type(), fa.X.Type()) {
						return nil
					}
				}
			}
		}
		call, ok := fa.X.(*ssa.Call)
		if !ok {
			return nil
		}
		g := call.Call.StaticCallee()
		if g == nil || g.Blocks == nil {
			return nil
		}
		// in the constructor: exactly one store to that member, of a parameter, on a fresh object
		var par *ssa.Parameter
		n := 0
		for _, b := range g.Blocks {
			for _, in := range b.Instrs {
				if st, ok := in.(*ssa.Store); ok {
					if fa2, ok := st.Addr.(*ssa.FieldAddr); ok && fa2.Field == fa.Field && types.Identical(fa2.X.Type(), fa.X.Type()) {
						n++
						if _, fresh := fa2.X.(*ssa.Alloc); fresh {
							par, _ = st.Val.(*ssa.Parameter)
						}
					}
				}
			}
		}
		if n != 1 || par == nil {
			return nil
		}
		for i, q := range g.Params {
			if q == par && i < len(call.Call.Args) {
				return lengthSourceOf(fn, call.Call.Args[i], depth-1)
			}
		}
	}
	return nil
}

// madeForRange: the index is the position of a range over S (a dominating branch compares it with len(S)) and the
// container has the length of S; S is a member that this function does not assign.
func madeForRange(fn *ssa.Function, at ssa.Instruction, cont ssa.Value) bool {
	ia, ok := at.(*ssa.IndexAddr)
	if !ok {
		return false
	}
	src := lengthSourceOf(fn, cont, 1)
	if src == nil {
		return false
	}
	if _, f, _ := loadedField(src); f != nil {
		for _, b := range fn.Blocks {
			for _, in := range b.Instrs {
				if st, ok := in.(*ssa.Store); ok {
					if fa, ok := st.Addr.(*ssa.FieldAddr); ok {
						if _, f2, _ := fieldOf(fa); f2 == f {
							return false
						}
					}
				}
			}
		}
	} else if _, isPar := src.(*ssa.Parameter); !isPar {
		return false
	}
	b := at.Block()
	for d := b.Idom(); d != nil; d = d.Idom() {
		ifi, ok := d.Instrs[len(d.Instrs)-1].(*ssa.If)
		if !ok {
			continue
		}
		bo, ok := ifi.Cond.(*ssa.BinOp)
		if !ok || bo.Op != token.LSS || bo.X != ia.Index || !(d.Succs[0] == b || d.Succs[0].Dominates(b)) {
			continue
		}
		if call, ok := bo.Y.(*ssa.Call); ok {
			if bi, ok := call.Call.Value.(*ssa.Builtin); ok && bi.Name() == "len" && sameValue(call.Call.Args[0], src) {
				return true
			}
		}
	}
	return false
}

// lenGuarded: some dominating block ends in a branch on a comparison involving len(same container).
func lenGuarded(at ssa.Instruction, cont ssa.Value) bool {
	isLenOf := func(v ssa.Value) bool {
		call, ok := v.(*ssa.Call)
		if !ok {
			return false
		}
		bi, ok := call.Call.Value.(*ssa.Builtin)
		if !ok || bi.Name() != "len" {
			return false
		}
		arg := call.Call.Args[0]
		if sameValue(arg, cont) {
			return true
		}
		// slices of the same base
		if sl, ok := cont.(*ssa.Slice); ok && sameValue(arg, sl.X) {
			return true
		}
		return false
	}
	mentionsLen := func(v ssa.Value) bool {
		bo, ok := v.(*ssa.BinOp)
		if !ok {
			return false
		}
		for _, side := range []ssa.Value{bo.X, bo.Y} {
			if isLenOf(side) {
				return true
			}
			// len(x)-1 etc.
			if b2, ok := side.(*ssa.BinOp); ok && (isLenOf(b2.X) || isLenOf(b2.Y)) {
				return true
			}
			// a call returning the length (method Len / lastIndex of the same receiver)
		}
		return false
	}
	// a predicate helper of the same type whose body compares with len of the same field (`if it.exhausted()`)
	viaHelper := func(v ssa.Value) bool {
		for {
			if u, ok := v.(*ssa.UnOp); ok && u.Op == token.NOT {
				v = u.X
				continue
			}
			break
		}
		call, ok := v.(*ssa.Call)
		if !ok {
			return false
		}
		g := call.Call.StaticCallee()
		if g == nil || g.Blocks == nil || g.Signature.Recv() == nil {
			return false
		}
		cn, cf, _ := loadedField(cont)
		if cn == nil || named(g.Signature.Recv().Type()) != cn {
			return false
		}
		hasLen := func(fn *ssa.Function) bool {
			for _, gb := range fn.Blocks {
				for _, gi := range gb.Instrs {
					if lc, ok := gi.(*ssa.Call); ok {
						if bi, ok := lc.Call.Value.(*ssa.Builtin); ok && bi.Name() == "len" {
							if n2, f2, _ := loadedField(lc.Call.Args[0]); n2 == cn && f2 == cf {
								return true
							}
						}
					}
				}
			}
			return false
		}
		if hasLen(g) {
			return true
		}
		// the predicate asks a length method of the same type (`it.pos >= it.len()`)
		for _, gb := range g.Blocks {
			for _, gi := range gb.Instrs {
				if lc, ok := gi.(*ssa.Call); ok {
					if h := lc.Call.StaticCallee(); h != nil && h != g && h.Blocks != nil && h.Signature.Recv() != nil && named(h.Signature.Recv().Type()) == cn && hasLen(h) {
						return true
					}
				}
			}
		}
		return false
	}
	b := at.Block()
	for d := b; d != nil; d = d.Idom() {
		if d == b {
			continue
		}
		if ifi, ok := d.Instrs[len(d.Instrs)-1].(*ssa.If); ok && (mentionsLen(ifi.Cond) || viaHelper(ifi.Cond)) {
			return true
		}
	}
	// a guard earlier in the same block chain via phi-free straight line is covered by idom walk; also accept a
	// comparison in the same block before the instruction (short-circuit conditions are split into blocks by SSA)
	return false
}

// checkNilDecoded: structural nil tests on decoded pointers.
func checkNilDecoded(p *Prog, r *Result, rule string) {
	a := p.A
	hasNilTest := func(fn *ssa.Function, elem types.Type) bool {
		for _, b := range fn.Blocks {
			for _, in := range b.Instrs {
				bo, ok := in.(*ssa.BinOp)
				if !ok || (bo.Op != token.EQL && bo.Op != token.NEQ) {
					continue
				}
				for i, side := range []ssa.Value{bo.X, bo.Y} {
					other := []ssa.Value{bo.Y, bo.X}[i]
					if cst, ok := other.(*ssa.Const); ok && cst.Value == nil && types.Identical(side.Type(), elem) {
						// the nil edge must be able to return a non-nil error: some return in the function is dominated by this block
						return true
					}
				}
			}
		}
		return false
	}
	specs := []struct {
		fn   string
		elem types.Type
		what string
	}{
		{"DB.loadSchema", types.NewPointer(a.Schema), "decoded schema pointer (schema.json may contain null)"},
		{a.ObjIndex.Obj().Name() + ".UnmarshalJSON", types.NewPointer(a.FieldIndex), "values of the decoded field-index map"},
		{a.FieldIndex.Obj().Name() + ".UnmarshalJSON", types.NewPointer(a.IndexedField), "elements of the decoded entry slice"},
	}
	for _, s := range specs {
		fn := p.FuncByName(s.fn)
		if fn == nil {
			r.Report(rule, s.fn, "nil test of "+s.what, Undecided, "function not found", "", nil, false)
			continue
		}
		tested := hasNilTest(fn, s.elem)
		if !tested {
			// the test may sit in a private helper of the same function (decoder split into parts)
			for _, g := range calleesWithin(p, fn, 2) {
				if g != fn && inSod(p, g) && hasNilTest(g, s.elem) {
					tested = true
				}
			}
		}
		if tested {
			r.Report(rule, FuncName(fn), "nil test of "+s.what, Discharged, "", p.Pos(fn.Pos()), nil, true)
		} else {
			r.Report(rule, FuncName(fn), "nil test of "+s.what, Violated, "the "+s.what+" are used without a nil test: a JSON null there is a nil pointer dereference on the first access to the collection", p.Pos(fn.Pos()), nil, true)
		}
	}
}

// ---- C19.R7: reflect.Value.Interface() on the search-argument path ---------------------------------------

// checkReflectInterface: (reflect.Value).Interface panics on a zero Value and on a value obtained from an unexported
// field. On the functions reachable from the search dispatcher (they handle the caller's field path and value), every
// such call must be unreachable without a validity test of its receiver: CanInterface / CanSet / IsValid on the same
// value, or, for a receiver that is x.Elem(), IsNil(x) known false. Feasible paths are enumerated over the function's
// CFG with the facts established by the branches (Kind()==K comparisons of the same value are correlated).
func checkReflectInterface(p *Prog, r *Result, rule string) {
	var roots []*ssa.Function
	for _, n := range []string{"DB.search", "DB.searchAll"} {
		if f := p.FuncByName(n); f != nil {
			roots = append(roots, f)
		}
	}
	if len(roots) == 0 {
		r.Report(rule, "-", "search dispatcher", Undecided, "search dispatcher not found", "", nil, false)
		return
	}
	isReflectMethod := func(v ssa.Value, names ...string) (*ssa.Call, bool) {
		c, ok := v.(*ssa.Call)
		if !ok {
			return nil, false
		}
		f := c.Call.StaticCallee()
		if f == nil || f.Signature.Recv() == nil || !isNamedFrom(f.Signature.Recv().Type(), "reflect", "Value") || len(c.Call.Args) == 0 {
			return nil, false
		}
		for _, n := range names {
			if f.Name() == n {
				return c, true
			}
		}
		return nil, false
	}
	// the deep clone (reached through the object read path) walks stored objects, not search arguments
	excluded := map[*ssa.Function]bool{}
	if cl, ok := p.SPkg.Members["CloneObject"].(*ssa.Function); ok {
		excluded = reachFrom(p, []*ssa.Function{cl})
	}
	n := 0
	for fn := range reachFrom(p, roots) {
		if !inSod(p, fn) || excluded[fn] {
			continue
		}
		for _, b := range fn.Blocks {
			for _, in := range b.Instrs {
				call, ok := isReflectMethod(valueOf(in), "Interface")
				if !ok {
					continue
				}
				n++
				recv := call.Call.Args[0]
				var elemOf ssa.Value
				if ec, ok := isReflectMethod(recv, "Elem"); ok {
					elemOf = ec.Call.Args[0]
				}
				// a receiver freshly built by reflect.New / reflect.ValueOf of a non-reflect value is valid
				fresh := false
				if rc, ok := recv.(*ssa.Call); ok {
					if f := rc.Call.StaticCallee(); f != nil && f.Pkg != nil && f.Pkg.Pkg.Path() == "reflect" && (f.Name() == "New" || f.Name() == "ValueOf") {
						fresh = true
					}
				}
				unsafePath := false
				if !fresh {
					unsafePath = reflectUnsafePath(fn, b, recv, elemOf, isReflectMethod)
				}
				construct := "reflect Interface() of " + reflectDesc(recv)
				if unsafePath {
					r.Report(rule, ownerName(p, fn), construct, Violated, "reflect.Value.Interface() is reachable without a validity test of its receiver (CanInterface / CanSet / IsValid on it, or IsNil on the value it is the Elem of): it panics for a zero Value (nil search value) or for a value obtained from an unexported field (a field path ending on an unexported member)", p.Pos(in.Pos()), nil, true)
				} else {
					r.Report(rule, ownerName(p, fn), construct, Discharged, "", p.Pos(in.Pos()), nil, true)
				}
			}
		}
	}
	if n == 0 {
		r.Report(rule, "-", "no reflect Interface() on the search path", Discharged, "", "", nil, true)
	}
	// FieldByName panics on anything but a struct: the receiver's kind must have been compared with reflect.Struct
	structKind := fmt.Sprint(int(reflect.Struct))
	for fn := range reachFrom(p, roots) {
		if !inSod(p, fn) || excluded[fn] {
			continue
		}
		for _, b := range fn.Blocks {
			for _, in := range b.Instrs {
				call, ok := isReflectMethod(valueOf(in), "FieldByName")
				if !ok {
					continue
				}
				recv := call.Call.Args[0]
				unsafePath := false
				for _, f := range reflectPaths(fn, b, isReflectMethod) {
					if !f[rfKey("kind", recv, structKind)] {
						unsafePath = true
					}
				}
				construct := "reflect FieldByName() on " + reflectDesc(recv) + " known to be a struct"
				if unsafePath {
					r.Report(rule, ownerName(p, fn), construct, Violated, "reflect.Value.FieldByName is reachable for a value whose kind was not compared with reflect.Struct: a field path that goes on after a scalar (or a pointer to one) panics instead of being reported as an unknown field", p.Pos(in.Pos()), nil, true)
				} else {
					r.Report(rule, ownerName(p, fn), construct, Discharged, "", p.Pos(in.Pos()), nil, true)
				}
			}
		}
	}
}

func valueOf(in ssa.Instruction) ssa.Value {
	if v, ok := in.(ssa.Value); ok {
		return v
	}
	return nil
}

func reflectDesc(v ssa.Value) string {
	switch x := v.(type) {
	case *ssa.Call:
		if f := x.Call.StaticCallee(); f != nil {
			return "the result of " + f.Name() + "()"
		}
	case *ssa.Extract:
		if c, ok := x.Tuple.(*ssa.Call); ok {
			if f := c.Call.StaticCallee(); f != nil {
				return "a result of " + f.Name() + "()"
			}
		}
	case *ssa.Parameter:
		return "a parameter"
	case *ssa.Phi:
		return "a local value"
	}
	return "a value"
}

// reflectFacts: what the branches of a path established about reflect values ("m/<value>/<Method>" -> truth,
// "kind/<value>/<K>" -> truth).
type reflectFacts map[string]bool

func rfKey(kind string, v ssa.Value, k string) string { return kind + "/" + v.Name() + "/" + k }

func (f reflectFacts) safeFor(recv, elemOf ssa.Value) bool {
	for _, m := range []string{"CanInterface", "CanSet", "IsValid"} {
		if f[rfKey("m", recv, m)] {
			return true
		}
	}
	if elemOf != nil {
		if v, ok := f[rfKey("m", elemOf, "IsNil")]; ok && !v {
			return true
		}
	}
	return false
}

// merge returns the union of two fact sets, or nil when they contradict each other.
func (f reflectFacts) merge(g reflectFacts) reflectFacts {
	out := reflectFacts{}
	for k, v := range f {
		out[k] = v
	}
	for k, v := range g {
		if cur, ok := out[k]; ok && cur != v {
			return nil
		}
		out[k] = v
	}
	// one kind per value
	kinds := map[string]string{}
	for k, v := range out {
		if v && strings.HasPrefix(k, "kind/") {
			parts := strings.SplitN(k, "/", 3)
			if prev, ok := kinds[parts[1]]; ok && prev != parts[2] {
				return nil
			}
			kinds[parts[1]] = parts[2]
		}
	}
	return out
}

// reflectPaths enumerates the feasible CFG paths from the entry of fn to block `to` and returns the fact set of each.
func reflectPaths(fn *ssa.Function, to *ssa.BasicBlock, isReflectMethod func(ssa.Value, ...string) (*ssa.Call, bool)) []reflectFacts {
	var out []reflectFacts
	visits := map[*ssa.BasicBlock]int{}
	var walk func(b, prev *ssa.BasicBlock, f reflectFacts)
	walk = func(b, prev *ssa.BasicBlock, f reflectFacts) {
		if visits[b] > 64 || len(out) > 256 {
			return
		}
		visits[b]++
		if b == to {
			out = append(out, f)
			return
		}
		ifi, ok := b.Instrs[len(b.Instrs)-1].(*ssa.If)
		if !ok {
			for _, s := range b.Succs {
				walk(s, b, f)
			}
			return
		}
		for edge, s := range b.Succs {
			truth := edge == 0
			cond := ifi.Cond
			feasible := true
			for {
				if u, ok := cond.(*ssa.UnOp); ok && u.Op == token.NOT {
					cond, truth = u.X, !truth
					continue
				}
				// a && / || materialised as a phi of this block: the operand that came in with the path's predecessor
				if ph, ok := cond.(*ssa.Phi); ok && ph.Block() == b && prev != nil {
					var in ssa.Value
					for i, pb := range b.Preds {
						if pb == prev && i < len(ph.Edges) {
							in = ph.Edges[i]
						}
					}
					if in == nil {
						break
					}
					if c, ok := in.(*ssa.Const); ok && c.Value != nil {
						if (c.Value.String() == "true") != truth {
							feasible = false
						}
						cond = nil
						break
					}
					cond = in
					continue
				}
				break
			}
			if !feasible {
				continue
			}
			add := reflectFacts{}
			if cond != nil {
				if c, ok := isReflectMethod(cond, "CanInterface", "CanSet", "IsValid", "IsNil"); ok {
					add[rfKey("m", c.Call.Args[0], c.Call.StaticCallee().Name())] = truth
				} else if bo, ok := cond.(*ssa.BinOp); ok && (bo.Op == token.EQL || bo.Op == token.NEQ) {
					for i, a := range []ssa.Value{bo.X, bo.Y} {
						o := []ssa.Value{bo.Y, bo.X}[i]
						if kc, ok := isReflectMethod(a, "Kind"); ok {
							if cst, ok := o.(*ssa.Const); ok && cst.Value != nil {
								add[rfKey("kind", kc.Call.Args[0], cst.Value.String())] = (bo.Op == token.EQL) == truth
							}
						}
					}
				}
			}
			if nf := f.merge(add); nf != nil {
				walk(s, b, nf)
			}
		}
	}
	walk(fn.Blocks[0], nil, reflectFacts{})
	return out
}

// reflectUnsafePath: is there a feasible path to block `to` of fn on which the receiver was not validated? When the
// receiver (or the value it is the Elem of) is a parameter of an unexported function, the facts established by every
// caller on the way to its call sites count too (translated to the parameter).
func reflectUnsafePath(fn *ssa.Function, to *ssa.BasicBlock, recv, elemOf ssa.Value, isReflectMethod func(ssa.Value, ...string) (*ssa.Call, bool)) bool {
	var unsafe []reflectFacts
	for _, f := range reflectPaths(fn, to, isReflectMethod) {
		if !f.safeFor(recv, elemOf) {
			unsafe = append(unsafe, f)
		}
	}
	if len(unsafe) == 0 {
		return false
	}
	// which parameter carries the value?
	pidx := -1
	for i, prm := range fn.Params {
		if ssa.Value(prm) == recv || (elemOf != nil && ssa.Value(prm) == elemOf) {
			pidx = i
		}
	}
	if pidx < 0 || fn.Object() == nil || ast.IsExported(fn.Name()) {
		return true
	}
	prm := fn.Params[pidx]
	sites := 0
	for _, caller := range callersOf(fn) {
		for _, b := range caller.Blocks {
			for _, in := range b.Instrs {
				ci, ok := in.(ssa.CallInstruction)
				if !ok || ci.Common().StaticCallee() != fn || pidx >= len(ci.Common().Args) {
					continue
				}
				sites++
				arg := ci.Common().Args[pidx]
				for _, g := range reflectPaths(caller, b, isReflectMethod) {
					// translate the caller's facts about the argument into facts about the parameter
					tr := reflectFacts{}
					for k, v := range g {
						parts := strings.SplitN(k, "/", 3)
						if len(parts) == 3 && parts[1] == arg.Name() {
							tr[parts[0]+"/"+prm.Name()+"/"+parts[2]] = v
						}
					}
					for _, u := range unsafe {
						if m := tr.merge(u); m != nil && !m.safeFor(recv, elemOf) {
							return true
						}
					}
				}
			}
		}
	}
	return sites == 0
}

// callersOf: the functions of the same package that call fn statically.
func callersOf(fn *ssa.Function) []*ssa.Function {
	var out []*ssa.Function
	if fn.Pkg == nil {
		return out
	}
	var scan func(f *ssa.Function)
	scan = func(f *ssa.Function) {
		for _, b := range f.Blocks {
			for _, in := range b.Instrs {
				if ci, ok := in.(ssa.CallInstruction); ok && ci.Common().StaticCallee() == fn {
					out = append(out, f)
					return
				}
			}
		}
	}
	for _, m := range fn.Pkg.Members {
		switch v := m.(type) {
		case *ssa.Function:
			scan(v)
			for _, an := range v.AnonFuncs {
				scan(an)
			}
		case *ssa.Type:
			for _, t := range []types.Type{v.Type(), types.NewPointer(v.Type())} {
				ms := fn.Prog.MethodSets.MethodSet(t)
				for i := 0; i < ms.Len(); i++ {
					if mf := fn.Prog.MethodValue(ms.At(i)); mf != nil && mf.Pkg == fn.Pkg {
						scan(mf)
					}
				}
			}
		}
	}
	return out
}

// decoderOf: fn is an UnmarshalJSON method, or a private helper that only UnmarshalJSON methods of one type call
// (directly or through such helpers): the decoder it is a part of, else nil.
func decoderOf(fn *ssa.Function) *ssa.Function { return decoderOfN(fn, 3) }

func decoderOfN(fn *ssa.Function, depth int) *ssa.Function {
	if fn == nil {
		return nil
	}
	if fn.Name() == "UnmarshalJSON" && fn.Signature.Recv() != nil {
		return fn
	}
	if depth <= 0 || fn.Object() == nil || fn.Object().Exported() {
		return nil
	}
	var dec *ssa.Function
	for _, c := range callersOf(fn) {
		if c == fn {
			continue
		}
		d := decoderOfN(c, depth-1)
		if d == nil || (dec != nil && d != dec) {
			return nil
		}
		dec = d
	}
	return dec
}

// ---- C19.R8 / R9: decoded index versus descriptors; maps of the decoded index --------------------------------

// checkIndexMatchesDescriptors: the comparators and the insertion assert the dynamic type announced by the cast of
// a field index; the only thing that ties a decoded cast to the struct is the schema control.
func checkIndexMatchesDescriptors(p *Prog, r *Result, rule string) {
	a := p.A
	ctl := p.FuncByName("Schema.control")
	if ctl == nil {
		r.Report(rule, "Schema.control", "function", Undecided, "schema control not found", "", nil, false)
		return
	}
	castCmp, lookup := false, false
	var where ssa.Instruction
	for _, f := range calleesWithin(p, ctl, 2) {
		for _, b := range f.Blocks {
			for _, in := range b.Instrs {
				switch v := in.(type) {
				case *ssa.BinOp:
					if v.Op != token.EQL && v.Op != token.NEQ {
						continue
					}
					for _, op := range []ssa.Value{v.X, v.Y} {
						if _, fld, _ := loadedField(op); fld != nil && fld == a.FICast {
							castCmp = true
							where = in
						}
					}
				case *ssa.Lookup:
					if _, fld, _ := loadedField(v.X); fld != nil && fld == a.OIFields && v.CommaOk {
						lookup = true
					}
				}
			}
		}
	}
	if castCmp && lookup {
		r.Report(rule, FuncName(ctl), "field indexes are compared with the field descriptors", Discharged, "", p.Pos(where.Pos()), nil, true)
	} else {
		r.Report(rule, FuncName(ctl), "field indexes are compared with the field descriptors", Violated, fmt.Sprintf("the schema control does not tie the decoded field indexes to the descriptors (looks each indexed field up: %v, compares the cast: %v): a schema.json whose field index is missing or announces another cast is published, and the next insertion panics in a comparator's type assertion", lookup, castCmp), p.Pos(ctl.Pos()), nil, true)
	}
}

// checkDecodedMaps: every map of the object index is made by the decoder (a null in the file leaves it nil otherwise).
func checkDecodedMaps(p *Prog, r *Result, rule string) {
	a := p.A
	var dec *ssa.Function
	for _, f := range p.Funcs {
		if f.Name() == "UnmarshalJSON" && recvIs(f, a.ObjIndex) {
			dec = f
		}
	}
	if dec == nil {
		r.Report(rule, "objIndex.UnmarshalJSON", "function", Undecided, "object index decoder not found", "", nil, false)
		return
	}
	st := structOf(a.ObjIndex)
	for i := 0; i < st.NumFields(); i++ {
		fld := st.Field(i)
		if _, ok := fld.Type().Underlying().(*types.Map); !ok {
			continue
		}
		made := false
		// the decoder or one of its parts (private helpers only the decoder calls)
		for _, g := range calleesWithin(p, dec, 2) {
			if g != dec && decoderOf(g) != dec {
				continue
			}
			for _, b := range g.Blocks {
				for _, in := range b.Instrs {
					if s, ok := in.(*ssa.Store); ok {
						if _, f, _ := fieldOf(s.Addr); f == fld {
							if _, ok := s.Val.(*ssa.MakeMap); ok {
								made = true
							}
						}
					}
				}
			}
		}
		construct := "decoder makes the map " + describeMapField(fld)
		if made {
			r.Report(rule, FuncName(dec), construct, Discharged, "", p.Pos(dec.Pos()), nil, true)
		} else {
			r.Report(rule, FuncName(dec), construct, Violated, "the decoder of the object index never makes this map: a null in schema.json leaves it nil and the next insertion panics (assignment to entry in nil map)", p.Pos(dec.Pos()), nil, true)
		}
	}
}

func describeMapField(f *types.Var) string {
	return types.TypeString(f.Type(), func(p *types.Package) string { return "" })
}

// ---- C19.R10: values returned next to an error by the os package -------------------------------------------

// checkOsResultsUnderNilErr: (FileInfo, error), (*File, error) ... : the value is nil when the error is not. Every method
// call on (or dereference of) such a value must sit where `err == nil` is established for the error of the same call:
// dominated by the nil edge of a test of that error. A test for one error class only (os.IsNotExist) is not enough.
func checkOsResultsUnderNilErr(p *Prog, r *Result, rule string) {
	n := 0
	for _, fn := range p.Funcs {
		if !inSod(p, fn) {
			continue
		}
		for _, b := range fn.Blocks {
			for _, in := range b.Instrs {
				call, ok := in.(*ssa.Call)
				if !ok {
					continue
				}
				f := call.Call.StaticCallee()
				if f == nil || f.Pkg == nil || f.Pkg.Pkg.Path() != "os" || f.Signature.Results().Len() != 2 || !isErrorType(f.Signature.Results().At(1).Type()) {
					continue
				}
				if !isPointerLike(f.Signature.Results().At(0).Type()) && !types.IsInterface(f.Signature.Results().At(0).Type()) {
					continue
				}
				var val, errv *ssa.Extract
				if call.Referrers() != nil {
					for _, rf := range *call.Referrers() {
						if ex, ok := rf.(*ssa.Extract); ok {
							if ex.Index == 0 {
								val = ex
							} else {
								errv = ex
							}
						}
					}
				}
				if val == nil || val.Referrers() == nil {
					continue
				}
				// blocks where err == nil is established
				var nilEdges []*ssa.BasicBlock
				// the error itself, and when it is kept in a cell (named result captured by a defer) the loads of that
				// cell that follow the store in the same block
				var errVals []ssa.Value
				if errv != nil {
					errVals = append(errVals, errv)
					if errv.Referrers() != nil {
						for _, rf := range *errv.Referrers() {
							st, ok := rf.(*ssa.Store)
							if !ok || st.Val != ssa.Value(errv) {
								continue
							}
							after := false
							for _, bi := range st.Block().Instrs {
								if bi == ssa.Instruction(st) {
									after = true
									continue
								}
								if !after {
									continue
								}
								if s2, ok := bi.(*ssa.Store); ok && s2.Addr == st.Addr {
									break
								}
								if ld, ok := bi.(*ssa.UnOp); ok && ld.Op == token.MUL && ld.X == st.Addr {
									errVals = append(errVals, ld)
								}
							}
						}
					}
				}
				for _, ev := range errVals {
					if ev.Referrers() == nil {
						continue
					}
					for _, rf := range *ev.Referrers() {
						bo, ok := rf.(*ssa.BinOp)
						if !ok || (bo.Op != token.EQL && bo.Op != token.NEQ) || bo.Referrers() == nil {
							continue
						}
						isNilCmp := false
						for _, op := range []ssa.Value{bo.X, bo.Y} {
							if c, ok := op.(*ssa.Const); ok && c.IsNil() {
								isNilCmp = true
							}
						}
						if !isNilCmp {
							continue
						}
						for _, br := range *bo.Referrers() {
							if ifi, ok := br.(*ssa.If); ok {
								succ := ifi.Block().Succs[0]
								if bo.Op == token.NEQ {
									succ = ifi.Block().Succs[1]
								}
								if len(succ.Preds) == 1 {
									nilEdges = append(nilEdges, succ)
								}
							}
						}
					}
				}
				for _, use := range *val.Referrers() {
					ci, ok := use.(ssa.CallInstruction)
					if !ok {
						if u, ok := use.(*ssa.UnOp); !ok || u.Op != token.MUL {
							continue
						}
					} else {
						// only uses as the receiver (method call on the possibly nil value)
						cc := ci.Common()
						isRecv := (cc.IsInvoke() && cc.Value == ssa.Value(val)) || (!cc.IsInvoke() && cc.Signature().Recv() != nil && len(cc.Args) > 0 && cc.Args[0] == ssa.Value(val))
						if !isRecv {
							continue
						}
					}
					n++
					guarded := false
					for _, e := range nilEdges {
						if e == use.Block() || e.Dominates(use.Block()) {
							guarded = true
						}
					}
					construct := "result of os." + f.Name() + " used under err == nil"
					if guarded {
						r.Report(rule, ownerName(p, fn), construct, Discharged, "", p.Pos(use.Pos()), nil, true)
					} else {
						r.Report(rule, ownerName(p, fn), construct, Violated, "the value returned by os."+f.Name()+" is used where its error is not known to be nil (a test for one class of error, such as os.IsNotExist, leaves the others): any other failure (not a directory, permission denied, I/O error) yields a nil value and the call panics", p.Pos(use.Pos()), nil, true)
					}
				}
			}
		}
	}
	if n == 0 {
		r.Report(rule, "-", "no os result is dereferenced", Discharged, "", "", nil, true)
	}
}
