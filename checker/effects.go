package main

import (
	"go/constant"
	"go/types"
	"sort"
	"strings"

	"golang.org/x/tools/go/ssa"
)

// Eff is one primitive or derived effect kind.
type Eff uint8

const (
	EIdxWLive Eff = iota // write into an index structure reachable from a schema's object index
	EIdxWTemp            // write into an index structure allocated in the current call tree
	EIdxWUnk
	ETblR
	ETblW
	ETblDel
	ETblHas // the schema table is known to hold the entry (hit or just written)
	EPutCache
	EPutPend
	EPutUnk
	EDelCache
	EDelPend
	EDelUnk
	EGetCache
	EGetPend
	EGetUnk
	EIterStore // range / len over an inner store map
	ECfgW
	EFsWObj // open-for-write / WriteFile / Create on an object path
	EFsWSchema
	EFsWOther
	EFsRmObj
	EFsRmSchema
	EFsRmOther
	EFsRmTree
	EFsMkdir
	EFsRename
	EFsRObj // open for reading / ReadFile
	EFsRSchema
	EFsROther
	EFsStatObj
	EFsStatSchema
	EFsStatOther
	EFsReadDir
	EFsSync
	EJsonEncObj
	EJsonEncSchema
	EJsonEncOther
	EJsonDec
	EHookT
	EHookV
	EHookI
	EHookU
	ECase
	EGo
	ESleep
	EChan
	EPanic
	ECancel
	ECtxErr
	EUuidNew
	ERegexp
	EClone
	// success facts
	EOkValid
	EOkUniq
	EOkAccept
	EOkSchema
	EOkObjRead
	EOkCompat
	EOkStruct
	EOkSer
	EOkUniqLive   // a uniqueness-checking call on the live index succeeded
	EOkUniqTemp   // a uniqueness-checking call on a scratch index succeeded
	EOkAcceptTemp // an accepting (checking and inserting) call on a scratch index succeeded
	// sentinel error sources (value flows towards a return)
	EErrUnique
	EErrInvalid
	EErrCorrupted
	EErrStructure
	EErrFieldDesc
	EErrExtension
	EErrWrongType
	EErrOperator
	EErrCasting
	EErrUnkField
	EErrKeyType
	EErrNoObject
	EErrNotIndexed
	EErrOther
	// derived effects
	ECanon         // a call to the case-transform routine (closure has CASE and no object hook) returned
	EDirty         // live index / settings changed since the last schema commit (set by IDX.w(live)/CFG.w, cleared by FS.write(schema))
	ECallDelCache  // a store-delete call on the cache store was made
	ECallDelPend   // a store-delete call on the pending store was made
	ECallUnindex   // an index-delete call on the live index was made
	ECallFlushPend // a flush call on the pending store (or one of its maps) was made
	ECallCommit    // a call of the schema-commit family (closure encodes and writes the schema file) was made
	ECallGetCache  // a lookup call on the cache store was made
	ECallStarter   // a call whose closure spawns a goroutine was made (flusher starter)
	ECallWriteObj  // a call of the object-write family (closure writes an object file) was made
	ECallInit      // the object is known to carry an identifier: Initialize was invoked on it, or `UUID() != ""` was established on this path
	EIsCorruptedQ  // errors.Is(err, ErrIndexCorrupted) was evaluated
	ECloseFile     // (*os.File).Close
	ECloseIface    // Close invoked on an io.Closer / io.WriteCloser value
	EGzipWriter    // a gzip writer was created
	EUnrenamed     // a persistent file was opened for writing and no rename followed yet (set by FS.write(object|schema), cleared by FS.rename)
	// pseudo effects, only used in call-graph closures
	EAccessG // touches a field of a struct type declared in sod
	ELockOp  // calls a sync lock method
	effCount
)

var effNames = [...]string{
	"IDX.w(live)", "IDX.w(temp)", "IDX.w(?)", "TBL.r", "TBL.w", "TBL.del", "TBL.has",
	"STO.put(cache)", "STO.put(pending)", "STO.put(?)", "STO.del(cache)", "STO.del(pending)", "STO.del(?)",
	"STO.get(cache)", "STO.get(pending)", "STO.get(?)", "STO.iter", "CFG.w",
	"FS.write(object)", "FS.write(schema)", "FS.write(other)", "FS.remove(object)", "FS.remove(schema)", "FS.remove(other)", "FS.removeall",
	"FS.mkdir", "FS.rename", "FS.read(object)", "FS.read(schema)", "FS.read(other)", "FS.stat(object)", "FS.stat(schema)", "FS.stat(other)", "FS.readdir", "FS.sync",
	"JSON.enc(object)", "JSON.enc(schema)", "JSON.enc(other)", "JSON.dec",
	"HOOK.Transform", "HOOK.Validate", "HOOK.Initialize", "HOOK.UUID", "CASE", "GO", "SLEEP", "CHAN", "PANIC", "CANCEL", "CTX.err", "UUID.new", "REGEXP", "CLONE",
	"ok(Validate)", "ok(UNIQ.check)", "ok(ACCEPT)", "ok(SCHEMA.get)", "ok(OBJ.read)", "ok(COMPAT)", "ok(STRUCT)", "ok(SERIALISE)", "ok(UNIQ.check live)", "ok(UNIQ.check temp)", "ok(ACCEPT temp)",
	"ERR(ConstraintUnique)", "ERR(InvalidObject)", "ERR(IndexCorrupted)", "ERR(StructureChanged)", "ERR(FieldDescModif)", "ERR(ExtensionMismatch)", "ERR(WrongObjectType)",
	"ERR(UnkownSearchOperator)", "ERR(Casting)", "ERR(UnkownField)", "ERR(UnknownKeyType)", "ERR(NoObjectFound)", "ERR(FieldNotIndexed)", "ERR(other)",
	"CANON", "DIRTY", "CALL.del(cache)", "CALL.del(pending)", "CALL.unindex(live)", "CALL.flush(pending)", "CALL.commit", "CALL.get(cache)", "CALL.starter", "CALL.writeObject", "ID.assured", "errors.Is(corrupted)?", "CLOSE(file)", "CLOSE(iface)", "GZIP.writer", "UNRENAMED", "ACCESS", "LOCKOP",
}

func (e Eff) String() string {
	if int(e) < len(effNames) {
		return effNames[e]
	}
	return "?"
}

var sentinelEff = map[string]Eff{
	"ErrConstraintUnique": EErrUnique, "ErrInvalidObject": EErrInvalid, "ErrIndexCorrupted": EErrCorrupted,
	"ErrStructureChanged": EErrStructure, "ErrFieldDescModif": EErrFieldDesc, "ErrExtensionMismatch": EErrExtension,
	"ErrWrongObjectType": EErrWrongType, "ErrUnkownSearchOperator": EErrOperator, "ErrCasting": EErrCasting,
	"ErrUnkownField": EErrUnkField, "ErrUnknownKeyType": EErrKeyType, "ErrNoObjectFound": EErrNoObject,
	"ErrFieldNotIndexed": EErrNotIndexed,
}

// EffSet is a bit set of effects.
type EffSet [2]uint64

func effs(es ...Eff) EffSet {
	var s EffSet
	for _, e := range es {
		s[e/64] |= 1 << (e % 64)
	}
	return s
}
func (s EffSet) Has(e Eff) bool           { return s[e/64]&(1<<(e%64)) != 0 }
func (s EffSet) With(e Eff) EffSet        { s[e/64] |= 1 << (e % 64); return s }
func (s EffSet) Union(o EffSet) EffSet    { return EffSet{s[0] | o[0], s[1] | o[1]} }
func (s EffSet) Inter(o EffSet) EffSet    { return EffSet{s[0] & o[0], s[1] & o[1]} }
func (s EffSet) Minus(o EffSet) EffSet    { return EffSet{s[0] &^ o[0], s[1] &^ o[1]} }
func (s EffSet) Empty() bool              { return s[0] == 0 && s[1] == 0 }
func (s EffSet) Intersects(o EffSet) bool { return s[0]&o[0] != 0 || s[1]&o[1] != 0 }
func (s EffSet) Contains(o EffSet) bool   { return o.Minus(s).Empty() }
func (s EffSet) String() string {
	var n []string
	for e := Eff(0); e < effCount; e++ {
		if s.Has(e) {
			n = append(n, e.String())
		}
	}
	return "{" + strings.Join(n, ",") + "}"
}

// Tags: provenance of an abstract value.
type Tag uint32

const (
	TFresh        Tag = 1 << iota // this very object was allocated in the current call tree
	TDecoded                      // filled by json.Unmarshal in the current call tree (everything reachable is new)
	TLive                         // reachable from Schema.ObjectIndex
	TCache                        // reachable from DB.cache
	TPend                         // reachable from DB.asyncw
	TTbl                          // the schema table map
	TSchemaPath                   // string derived from the SchemaFilename constant
	TObjName                      // string derived from an object's UUID() / schema extension (object file name)
	TFromTbl                      // *Schema obtained from the schema table
	TSchemaVal                    // value is / derives from a *Schema
	TParamObj                     // caller-supplied Object
	TSchemaFields                 // the descriptor map loaded from Schema.Fields
	TWitness                      // the object a schema keeps as type witness (Schema.object)
	TSearchFields                 // derived from the result slice of a Search (load of Search.fields, appends to it)
)

const closedTags = TDecoded | TLive | TCache | TPend | TSchemaPath | TObjName | TParamObj | TSearchFields // closed under loads

const dataTags = TSchemaPath | TObjName | TSchemaFields

func isPointerLike(t types.Type) bool {
	switch t.Underlying().(type) {
	case *types.Pointer, *types.Map, *types.Slice, *types.Interface, *types.Chan, *types.Signature:
		return true
	}
	return false
}

// Static classification helpers ------------------------------------------------

// fieldOf returns the struct type and field var addressed/read by v (FieldAddr or Field), or nil.
func fieldOf(v ssa.Value) (*types.Named, *types.Var, ssa.Value) {
	switch x := v.(type) {
	case *ssa.FieldAddr:
		n := named(x.X.Type())
		if s := structOf(n); s != nil {
			return n, s.Field(x.Field), x.X
		}
	case *ssa.Field:
		n := named(x.X.Type())
		if s := structOf(n); s != nil {
			return n, s.Field(x.Field), x.X
		}
	}
	return nil, nil, nil
}

// loadedField: if v is a load of a struct field (UnOp * of FieldAddr, or Field), return the field.
func loadedField(v ssa.Value) (*types.Named, *types.Var, ssa.Value) {
	switch x := v.(type) {
	case *ssa.UnOp:
		if x.Op.String() == "*" {
			return fieldOf(x.X)
		}
	case *ssa.Field:
		return fieldOf(x)
	}
	return nil, nil, nil
}

func constString(v ssa.Value) (string, bool) {
	if c, ok := v.(*ssa.Const); ok && c.Value != nil && c.Value.Kind() == constant.String {
		return constant.StringVal(c.Value), true
	}
	return "", false
}

// extKind classifies a call to an external (non-sod) function.
type extKind int

const (
	xNone extKind = iota
	xFsOpenFile
	xFsCreate
	xFsWriteFile
	xFsOpen
	xFsReadFile
	xFsRemove
	xFsRemoveAll
	xFsRename
	xFsMkdir
	xFsStat
	xFsReadDir
	xFsSync
	xJsonMarshal
	xJsonUnmarshal
	xToUpperLower
	xSleep
	xRegexpCompile
	xUuidNew
	xErrorsIs
	xIsNotExist
	xLock
	xRLock
	xUnlock
	xRUnlock
	xCtxErr
	xWait
	xErrorf
	xErrorsNew
	xIoCopy
	xReadAll
	xFileClose
	xGzip
	xParseDuration
)

func classifyExternal(f *ssa.Function) extKind {
	if f == nil || f.Object() == nil || f.Object().Pkg() == nil {
		return xNone
	}
	pkg, name := f.Object().Pkg().Path(), f.Object().Name()
	rp, rt := recvNamed(f)
	switch pkg {
	case "os":
		if rt == "File" {
			switch name {
			case "Sync":
				return xFsSync
			case "Close":
				return xFileClose
			}
			return xNone
		}
		switch name {
		case "OpenFile":
			return xFsOpenFile
		case "Create":
			return xFsCreate
		case "WriteFile":
			return xFsWriteFile
		case "Open":
			return xFsOpen
		case "ReadFile":
			return xFsReadFile
		case "Remove":
			return xFsRemove
		case "RemoveAll":
			return xFsRemoveAll
		case "Rename":
			return xFsRename
		case "MkdirAll", "Mkdir":
			return xFsMkdir
		case "Stat", "Lstat":
			return xFsStat
		case "ReadDir":
			return xFsReadDir
		case "IsNotExist":
			return xIsNotExist
		}
	case "io/ioutil":
		switch name {
		case "WriteFile":
			return xFsWriteFile
		case "ReadFile":
			return xFsReadFile
		case "ReadAll":
			return xReadAll
		case "ReadDir":
			return xFsReadDir
		}
	case "io":
		switch name {
		case "Copy":
			return xIoCopy
		case "ReadAll":
			return xReadAll
		}
	case "encoding/json":
		switch name {
		case "Marshal", "MarshalIndent":
			return xJsonMarshal
		case "Unmarshal":
			return xJsonUnmarshal
		}
	case "strings":
		if name == "ToUpper" || name == "ToLower" {
			return xToUpperLower
		}
	case "time":
		if name == "Sleep" {
			return xSleep
		}
		if name == "ParseDuration" {
			return xParseDuration
		}
	case "regexp":
		if name == "Compile" || name == "MustCompile" {
			return xRegexpCompile
		}
	case "github.com/google/uuid":
		if name == "NewRandom" || name == "New" || name == "NewString" {
			return xUuidNew
		}
	case "errors":
		if name == "Is" {
			return xErrorsIs
		}
		if name == "New" {
			return xErrorsNew
		}
	case "fmt":
		if name == "Errorf" {
			return xErrorf
		}
	case "compress/gzip":
		return xGzip
	case "sync":
		_ = rp
		switch rt {
		case "RWMutex", "Mutex":
			switch name {
			case "Lock":
				return xLock
			case "RLock":
				return xRLock
			case "Unlock":
				return xUnlock
			case "RUnlock":
				return xRUnlock
			}
		case "WaitGroup", "Cond":
			if name == "Wait" {
				return xWait
			}
		}
	}
	return xNone
}

// Closure ---------------------------------------------------------------------

// Closures computes, for each sod function, the context-free may-set of
// primitive effects of the function and everything it can call statically
// (plus hook invokes). Subjects are not resolved here (all variants are set).
type Closures struct {
	own map[*ssa.Function]EffSet
	all map[*ssa.Function]EffSet
}

func (c *Closures) Of(f *ssa.Function) EffSet { return c.all[f] }

func computeClosures(p *Prog) *Closures {
	c := &Closures{own: map[*ssa.Function]EffSet{}, all: map[*ssa.Function]EffSet{}}
	callees := map[*ssa.Function][]*ssa.Function{}
	for _, fn := range p.Funcs {
		var s EffSet
		for _, b := range fn.Blocks {
			for _, in := range b.Instrs {
				s = s.Union(staticEffects(p, in))
				if _, isGo := in.(*ssa.Go); isGo {
					continue // what a spawned goroutine does is not an effect of the spawning call
				}
				if cc, ok := in.(ssa.CallInstruction); ok {
					if f := cc.Common().StaticCallee(); f != nil && f.Blocks != nil && inSod(p, f) {
						callees[fn] = append(callees[fn], f)
					}
					if mc, ok := cc.Common().Value.(*ssa.MakeClosure); ok {
						callees[fn] = append(callees[fn], mc.Fn.(*ssa.Function))
					}
				}
			}
		}
		c.own[fn] = s
		c.all[fn] = s
	}
	for changed := true; changed; {
		changed = false
		for _, fn := range p.Funcs {
			s := c.all[fn]
			for _, g := range callees[fn] {
				s = s.Union(c.all[g])
			}
			if s != c.all[fn] {
				c.all[fn] = s
				changed = true
			}
		}
	}
	return c
}

func inSod(p *Prog, f *ssa.Function) bool {
	if f.Pkg == p.SPkg {
		return true
	}
	if f.Pkg == nil && f.Object() != nil && f.Object().Pkg() == p.Types {
		return true
	}
	if f.Parent() != nil {
		return inSod(p, f.Parent())
	}
	return false
}

// staticEffects: context-free effect bits of one instruction (all subject variants).
func staticEffects(p *Prog, in ssa.Instruction) EffSet {
	a := p.A
	var s EffSet
	switch fa := in.(type) {
	case *ssa.FieldAddr:
		if n := named(fa.X.Type()); n != nil && n.Obj().Pkg() == p.Types {
			s = s.With(EAccessG)
		}
	case *ssa.Field:
		if n := named(fa.X.Type()); n != nil && n.Obj().Pkg() == p.Types {
			s = s.With(EAccessG)
		}
	case *ssa.MapUpdate, *ssa.Lookup, *ssa.Range:
		// map operations on guarded maps are classified below; any map of sod element types counts as access
	}
	switch x := in.(type) {
	case *ssa.Store:
		if n, f, _ := fieldOf(x.Addr); n != nil {
			switch {
			case n == a.ObjIndex || n == a.FieldIndex:
				s = s.Union(effs(EIdxWLive, EIdxWTemp, EIdxWUnk))
			case (n == a.Async && f.Exported()) || (n == a.Schema && (f == a.SchCache || f == a.SchAsync)):
				s = s.With(ECfgW)
			}
		}
		if ia, ok := x.Addr.(*ssa.IndexAddr); ok {
			if n, f, _ := loadedField(ia.X); n == a.FieldIndex && f == a.FIIndex {
				s = s.Union(effs(EIdxWLive, EIdxWTemp, EIdxWUnk))
			}
		}
	case *ssa.MapUpdate:
		s = s.Union(mapEffects(p, x.Map, effs(EIdxWLive, EIdxWTemp, EIdxWUnk), effs(ETblW), effs(EPutCache, EPutPend, EPutUnk)))
	case *ssa.Lookup:
		s = s.Union(mapEffects(p, x.X, EffSet{}, effs(ETblR), effs(EGetCache, EGetPend, EGetUnk)))
	case *ssa.Range:
		s = s.Union(mapEffects(p, x.X, EffSet{}, effs(ETblR), effs(EIterStore)))
	case *ssa.Panic:
		s = s.With(EPanic)
	case *ssa.Go:
		s = s.With(EGo)
	case *ssa.Send, *ssa.Select:
		s = s.With(EChan)
	case *ssa.UnOp:
		if x.Op.String() == "<-" {
			s = s.With(EChan)
		}
		if x.Op.String() == "*" {
			if g, ok := x.X.(*ssa.Global); ok {
				if v, ok := g.Object().(*types.Var); ok {
					if name, ok := a.Sentinels[v]; ok && sentinelIsSource(x) {
						if e, ok := sentinelEff[name]; ok {
							s = s.With(e)
						} else {
							s = s.With(EErrOther)
						}
					}
				}
			}
		}
	}
	// a case mapping handed around as a function value (mapString(v, strings.ToUpper)) changes case wherever it ends up
	{
		var ops []*ssa.Value
		for _, op := range in.Operands(ops) {
			if op == nil || *op == nil {
				continue
			}
			if f, ok := (*op).(*ssa.Function); ok && classifyExternal(f) == xToUpperLower {
				s = s.With(ECase)
			}
		}
	}
	if ci, ok := in.(ssa.CallInstruction); ok {
		cc := ci.Common()
		if cc.IsInvoke() {
			if named(cc.Value.Type()) == a.Object {
				switch cc.Method.Name() {
				case "Transform":
					s = s.With(EHookT)
				case "Validate":
					s = s.With(EHookV)
				case "Initialize":
					s = s.With(EHookI)
				case "UUID":
					s = s.With(EHookU)
				}
			}
			if isNamedFrom(cc.Value.Type(), "context", "Context") && cc.Method.Name() == "Err" {
				s = s.With(ECtxErr)
			}
			return s
		}
		if b, ok := cc.Value.(*ssa.Builtin); ok {
			if b.Name() == "delete" && len(cc.Args) > 0 {
				s = s.Union(mapEffects(p, cc.Args[0], effs(EIdxWLive, EIdxWTemp, EIdxWUnk), effs(ETblDel), effs(EDelCache, EDelPend, EDelUnk)))
			}
			if b.Name() == "len" && len(cc.Args) > 0 {
				s = s.Union(mapEffects(p, cc.Args[0], EffSet{}, EffSet{}, effs(EIterStore)))
			}
			if b.Name() == "append" && len(cc.Args) > 0 {
				// append to the index slice (re-assignment is a store, caught above)
			}
			return s
		}
		f := cc.StaticCallee()
		if f == nil {
			// dynamic call through a func value: the DB's cancel func
			if n, fv, _ := loadedField(cc.Value); n == a.DB && fv == a.DBCancel {
				s = s.With(ECancel)
			}
			return s
		}
		switch classifyExternal(f) {
		case xFsOpenFile:
			if len(cc.Args) >= 2 && openFlagWrites(cc.Args[1]) {
				s = s.Union(effs(EFsWObj, EFsWSchema, EFsWOther))
			} else {
				s = s.Union(effs(EFsRObj, EFsRSchema, EFsROther))
			}
		case xFsCreate, xFsWriteFile:
			s = s.Union(effs(EFsWObj, EFsWSchema, EFsWOther))
		case xFsOpen, xFsReadFile:
			s = s.Union(effs(EFsRObj, EFsRSchema, EFsROther))
		case xFsRemove:
			s = s.Union(effs(EFsRmObj, EFsRmSchema, EFsRmOther))
		case xFsRemoveAll:
			s = s.With(EFsRmTree)
		case xFsRename:
			s = s.With(EFsRename)
		case xFsMkdir:
			s = s.With(EFsMkdir)
		case xFsStat:
			s = s.Union(effs(EFsStatObj, EFsStatSchema, EFsStatOther))
		case xFsReadDir:
			s = s.With(EFsReadDir)
		case xFsSync:
			s = s.With(EFsSync)
		case xJsonMarshal:
			s = s.With(jsonEncKind(p, cc))
		case xJsonUnmarshal:
			s = s.With(EJsonDec)
		case xToUpperLower:
			s = s.With(ECase)
		case xSleep:
			s = s.With(ESleep)
		case xRegexpCompile:
			s = s.With(ERegexp)
		case xUuidNew:
			s = s.With(EUuidNew)
		case xWait:
			s = s.With(EChan)
		case xLock, xRLock, xUnlock, xRUnlock:
			s = s.With(ELockOp)
		case xErrorsNew, xErrorf:
			// creating an error value is not an effect
		}
	}
	return s
}

// sentinelIsSource: the loaded sentinel value flows somewhere other than a pure comparison.
func sentinelIsSource(load *ssa.UnOp) bool {
	refs := load.Referrers()
	if refs == nil {
		return false
	}
	for _, r := range *refs {
		switch u := r.(type) {
		case *ssa.BinOp:
			continue
		case *ssa.Call:
			if classifyExternal(u.Call.StaticCallee()) == xErrorsIs {
				continue
			}
			return true
		case *ssa.DebugRef:
			continue
		case *ssa.MakeInterface, *ssa.ChangeInterface:
			// an operand of fmt.Errorf makes an error of the sentinel's class only under the verb %w
			if verb, ok := errorfVerb(u.(ssa.Value)); ok && verb != 'w' {
				continue
			}
			return true
		default:
			return true
		}
	}
	return false
}

// errorfVerb: when the interface value is stored (only) as the k-th variadic operand of a fmt.Errorf call with a
// constant format, the verb that consumes it.
func errorfVerb(mi ssa.Value) (byte, bool) {
	refs := mi.Referrers()
	if refs == nil {
		return 0, false
	}
	var verb byte
	found := false
	for _, r := range *refs {
		switch u := r.(type) {
		case *ssa.DebugRef:
			continue
		case *ssa.Store:
			ia, ok := u.Addr.(*ssa.IndexAddr)
			if !ok || u.Val != mi {
				return 0, false
			}
			k, ok := ia.Index.(*ssa.Const)
			if !ok || k.Value == nil {
				return 0, false
			}
			idx, _ := constant.Int64Val(k.Value)
			arr, ok := ia.X.(*ssa.Alloc)
			if !ok || arr.Referrers() == nil {
				return 0, false
			}
			var call *ssa.Call
			for _, ar := range *arr.Referrers() {
				if sl, ok := ar.(*ssa.Slice); ok && sl.Referrers() != nil {
					for _, sr := range *sl.Referrers() {
						if c, ok := sr.(*ssa.Call); ok && classifyExternal(c.Call.StaticCallee()) == xErrorf && c.Call.StaticCallee().Name() == "Errorf" {
							call = c
						}
					}
				}
			}
			if call == nil || len(call.Call.Args) < 1 {
				return 0, false
			}
			format, ok := constString(call.Call.Args[0])
			if !ok {
				return 0, false
			}
			v, ok := nthVerb(format, int(idx))
			if !ok {
				return 0, false
			}
			verb, found = v, true
		default:
			return 0, false
		}
	}
	return verb, found
}

// nthVerb returns the verb letter of the n-th (0-based) operand-consuming directive of a Printf format
// (explicit argument indexes and '*' widths make it undecided).
func nthVerb(format string, n int) (byte, bool) {
	k := 0
	for i := 0; i < len(format); i++ {
		if format[i] != '%' {
			continue
		}
		i++
		for i < len(format) && strings.IndexByte("+-# 0123456789.", format[i]) >= 0 {
			i++
		}
		if i >= len(format) {
			return 0, false
		}
		if format[i] == '%' {
			continue
		}
		if format[i] == '[' || format[i] == '*' {
			return 0, false
		}
		if k == n {
			return format[i], true
		}
		k++
	}
	return 0, false
}

func openFlagWrites(v ssa.Value) bool {
	c, ok := v.(*ssa.Const)
	if !ok || c.Value == nil {
		return true // unknown flags: assume writing
	}
	n, ok := constant.Int64Val(c.Value)
	if !ok {
		return true
	}
	const oWRONLY, oRDWR, oCREATE, oTRUNC, oAPPEND = 0x1, 0x2, 0x40, 0x200, 0x400
	return n&(oWRONLY|oRDWR|oCREATE|oTRUNC|oAPPEND) != 0
}

func openFlagTrunc(v ssa.Value) bool {
	c, ok := v.(*ssa.Const)
	if !ok || c.Value == nil {
		return true
	}
	n, ok := constant.Int64Val(c.Value)
	if !ok {
		return true
	}
	return n&0x200 != 0
}

// mapEffects classifies a map operand by where it was loaded from.
func mapEffects(p *Prog, m ssa.Value, idx, tbl, sto EffSet) EffSet {
	a := p.A
	var s EffSet
	if n, f, _ := loadedField(m); n != nil {
		switch {
		case n == a.ObjIndex || n == a.FieldIndex:
			s = s.Union(idx)
		case n == a.DB && f == a.DBSchemas:
			s = s.Union(tbl)
		case n == a.ObjectMap && f == a.InnerMap:
			s = s.Union(sto)
		}
		return s
	}
	// fall back on the map's type
	if mt, ok := m.Type().Underlying().(*types.Map); ok {
		if named(mt.Elem()) == a.Schema {
			s = s.Union(tbl)
		} else if named(mt.Elem()) == a.Object {
			s = s.Union(sto)
		}
	}
	return s
}

func jsonEncKind(p *Prog, cc *ssa.CallCommon) Eff {
	if len(cc.Args) == 0 {
		return EJsonEncOther
	}
	v := cc.Args[0]
	for {
		switch x := v.(type) {
		case *ssa.MakeInterface:
			v = x.X
			continue
		case *ssa.ChangeInterface:
			v = x.X
			continue
		}
		break
	}
	switch {
	case named(v.Type()) == p.A.Schema:
		return EJsonEncSchema
	case named(v.Type()) == p.A.Object:
		return EJsonEncObj
	}
	return EJsonEncOther
}

func sortedKeys(m map[string]bool) []string {
	var k []string
	for s := range m {
		k = append(k, s)
	}
	sort.Strings(k)
	return k
}

// okBitsEngine: the success facts (verdicts of checks) whose freshness the engine tracks across handle-lock releases.
var okBitsEngine = effs(EOkValid, EOkUniq, EOkUniqLive, EOkUniqTemp, EOkAccept, EOkAcceptTemp)
