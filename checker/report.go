package main

import (
	"encoding/json"
	"fmt"
	"os"
	"path/filepath"
	"sort"
	"strings"
	"time"
)

const (
	Discharged = "discharged"
	Violated   = "violated"
	Undecided  = "undecided"
)

// Obligation is one rule instance: one construct a rule ranges over.
type Obligation struct {
	Rule       string   `json:"rule"`
	Key        string   `json:"key"` // rule / function / construct — never a line number
	Func       string   `json:"function,omitempty"`
	Construct  string   `json:"construct,omitempty"`
	Status     string   `json:"status"`
	Detail     string   `json:"detail,omitempty"`
	Where      string   `json:"where,omitempty"` // file:line, informational only
	Trace      []string `json:"trace,omitempty"`
	Contexts   int      `json:"contexts,omitempty"` // how many (entry, valuation, path) contexts reached it
	Nontrivial bool     `json:"nontrivial,omitempty"`
}

// Result accumulates obligations of one property check.
type Result struct {
	Prop        string
	obs         map[string]*Obligation
	order       []string
	Evaluations int
	Rules       map[string]string // rule id -> description
	MinCount    map[string]int    // vacuity guard: rule -> minimum number of obligations
	Notes       []string
	Entries     []string
	Assumptions []string
	NotDecided  []string
	Extra       map[string]interface{}
}

func NewResult(prop string) *Result {
	return &Result{Prop: prop, obs: map[string]*Obligation{}, Rules: map[string]string{}, MinCount: map[string]int{}, Extra: map[string]interface{}{}}
}

func mkKey(rule, fn, construct string) string {
	return rule + "/" + fn + "/" + construct
}

// Report records an observation for an obligation. A violated or undecided
// observation is sticky; discharged observations count contexts.
func (r *Result) Report(rule, fn, construct, status, detail, where string, trace []string, nontrivial bool) *Obligation {
	key := mkKey(rule, fn, construct)
	r.Evaluations++
	o, ok := r.obs[key]
	if !ok {
		o = &Obligation{Rule: rule, Key: key, Func: fn, Construct: construct, Status: status, Detail: detail, Where: where, Trace: trace, Nontrivial: nontrivial}
		r.obs[key] = o
		r.order = append(r.order, key)
		o.Contexts = 1
		return o
	}
	o.Contexts++
	if nontrivial {
		o.Nontrivial = true
	}
	rank := map[string]int{Discharged: 0, Undecided: 1, Violated: 2}
	if rank[status] > rank[o.Status] {
		o.Status, o.Detail, o.Where, o.Trace = status, detail, where, trace
	}
	return o
}

func (r *Result) Rule(id, desc string, min int) {
	r.Rules[id] = desc
	r.MinCount[id] = min
}

func (r *Result) Obligations() []*Obligation {
	keys := append([]string(nil), r.order...)
	sort.Strings(keys)
	var out []*Obligation
	for _, k := range keys {
		out = append(out, r.obs[k])
	}
	return out
}

func (r *Result) CountRule(rule string) int {
	n := 0
	for _, o := range r.obs {
		if o.Rule == rule {
			n++
		}
	}
	return n
}

// KnownFinding is an entry of /verif/known_findings.json.
type KnownFinding struct {
	Property string `json:"property"`
	Key      string `json:"key"`
	Status   string `json:"status"` // known | fixed
	Commit   string `json:"commit,omitempty"`
	What     string `json:"what"`
}

func loadKnown(path string) []KnownFinding {
	b, err := os.ReadFile(path)
	if err != nil {
		return nil
	}
	var f struct {
		Findings []KnownFinding `json:"findings"`
	}
	if err := json.Unmarshal(b, &f); err != nil {
		broken("known findings file %s: %v", path, err)
	}
	return f.Findings
}

// Finish applies the vacuity guard, known findings, writes evidence and replay files,
// prints the verdict lines and returns the exit code.
func (r *Result) Finish(verifDir, tier string, seed int64, start time.Time, anchorsMissing []string) int {
	for _, m := range anchorsMissing {
		r.Report("ANCHOR", "-", m, Undecided, "anchor did not resolve: "+m, "", nil, false)
	}
	for rule, min := range r.MinCount {
		if n := r.CountRule(rule); n < min {
			r.Report("VACUITY", "-", rule, Undecided, fmt.Sprintf("rule %s matched %d constructs, fewer than the confirmed minimum %d: the rule would pass vacuously", rule, n, min), "", nil, false)
		}
	}
	known := loadKnown(filepath.Join(verifDir, "known_findings.json"))
	obs := r.Obligations()
	var violations []*Obligation
	nDis, nNontriv := 0, 0
	knownHit := 0
	for _, o := range obs {
		if o.Nontrivial {
			nNontriv++
		}
		switch o.Status {
		case Discharged:
			nDis++
		default:
			isKnown := false
			for _, k := range known {
				if k.Property == r.Prop && k.Status == "known" && k.Key == o.Key {
					fmt.Printf("KNOWN-FINDING: property=%s %s [%s]\n", r.Prop, k.What, o.Key)
					isKnown = true
					knownHit++
				}
			}
			if !isKnown {
				violations = append(violations, o)
			}
		}
	}
	evDir := filepath.Join(verifDir, "evidence")
	os.MkdirAll(filepath.Join(evDir, "violations"), 0o755)
	// stale replay files of this property
	old, _ := filepath.Glob(filepath.Join(evDir, "violations", r.Prop+"-*.json"))
	for _, f := range old {
		os.Remove(f)
	}
	for i, o := range violations {
		path := filepath.Join(evDir, "violations", fmt.Sprintf("%s-%d.json", r.Prop, i+1))
		b, _ := json.MarshalIndent(map[string]interface{}{
			"property": r.Prop, "obligation": o, "rule_text": r.Rules[o.Rule],
			"replay_cmd": fmt.Sprintf("bin/sodcheck -prop %s -only '%s'", r.Prop, o.Key),
		}, "", " ")
		os.WriteFile(path, b, 0o644)
		fmt.Printf("VIOLATION property=%s replay=%s\n", r.Prop, path)
		fmt.Printf("  %s [%s] %s: %s\n", o.Status, o.Key, o.Where, o.Detail)
		for _, t := range o.Trace {
			fmt.Printf("    %s\n", t)
		}
	}
	// samples: a few obligations written out
	var samples []interface{}
	perRule := map[string]int{}
	for _, o := range obs {
		if perRule[o.Rule] < 3 && len(samples) < 40 {
			perRule[o.Rule]++
			samples = append(samples, o)
		}
	}
	ruleList := []string{}
	for id := range r.Rules {
		ruleList = append(ruleList, id)
	}
	sort.Strings(ruleList)
	var expl []string
	for _, id := range ruleList {
		expl = append(expl, fmt.Sprintf("%s: %s [%d obligations, min %d]", id, r.Rules[id], r.CountRule(id), r.MinCount[id]))
	}
	explanation := "Static analysis of /repo's current working tree (go/packages + go/ssa; no sod code is executed). Rules applied: " + strings.Join(expl, " | ")
	if len(r.NotDecided) > 0 {
		explanation += " || NOT decided by this check: " + strings.Join(r.NotDecided, "; ")
	}
	cov := map[string]interface{}{
		"explanation":         explanation,
		"obligations":         len(obs),
		"discharged":          nDis,
		"evaluations":         r.Evaluations,
		"distinct_nontrivial": nNontriv,
		"rule":                "one case = one rule instance (obligation) keyed rule/function/construct; evaluations counts every (entry point, valuation, path) context in which an obligation was checked; non-trivial = the obligation needed a path, lock-state, alias or table argument (was not discharged by mere absence of the construct)",
		"samples":             samples,
		"entry_points":        r.Entries,
		"known_findings_hit":  knownHit,
		"checker_cmd":         fmt.Sprintf("bin/sodcheck -prop %s -tier %s", r.Prop, tier),
		"trusted_base":        []string{"go/types, go/ssa (x/tools v0.29.0)", "anchors resolved from the repository (see DESIGN.md 3.2)", "stdlib semantics tables in checker/effects.go"},
		"exhaustive":          true,
	}
	for k, v := range r.Extra {
		cov[k] = v
	}
	ev := map[string]interface{}{
		"property_id": r.Prop,
		"tier":        tier,
		"seed":        seed,
		"level":       "other",
		"coverage":    cov,
		"assumptions": r.Assumptions,
		"wall_s":      time.Since(start).Seconds(),
		"violations":  len(violations),
	}
	if r.Assumptions == nil {
		ev["assumptions"] = []string{}
	}
	b, _ := json.MarshalIndent(ev, "", " ")
	if err := os.WriteFile(filepath.Join(evDir, r.Prop+".json"), b, 0o644); err != nil {
		broken("cannot write evidence: %v", err)
	}
	fmt.Printf("%s: %d obligations, %d discharged, %d known findings, %d violations/undecided (%.1fs)\n", r.Prop, len(obs), nDis, knownHit, len(violations), time.Since(start).Seconds())
	if len(violations) > 0 {
		return 1
	}
	return 0
}
