package main

import (
	"fmt"
	"go/token"
	"go/types"
	"strings"

	"golang.org/x/tools/go/ssa"
)

// ---- C04 ------------------------------------------------------------------------------

func checkC04(p *Prog, r *Result, tier string) {
	r.Rule("C04.R1", "AT-RETURN(nil), synchronous mode: no exported handle entry point can return successfully while the live index or the settings changed after the last schema commit (every synchronous mutator commits)", 8)
	r.Rule("C04.R2", "Close is complete: on every return it has cancelled the context and called the pending-store flush, and every iteration of its schema loop calls the schema commit; the loop cannot be left early", 3)
	r.Rule("C04.R3", "codec sibling agreement: for each persisted type with a custom codec the JSON keys written equal the keys read; the index entry tuple is [value, id] on both sides", 4)
	r.Rule("C04.R4", "rehydration completeness: every field of a persisted struct that the encoder does not write is assigned on every successful path of the decoder / initialiser before the schema is published in the table", 4)
	r.Rule("C04.R5", "no lossy detour for integer keys: on the load path no int64/uint64 index key or object id is produced by converting a float64 obtained from decoded JSON", 1)
	r.NotDecided = []string{"equality of complete observation sets before/after reopen", "that control on load accepts exactly what Close wrote"}
	r.Assumptions = []string{"schema-table stability within one locked call"}
	c := computeClosures(p)

	// R1
	mask := effs(EDirty, EIdxWLive, ECfgW, EFsWSchema)
	var jobs []exploreJob
	for _, f := range apiRoots(p) {
		if p.GoRoot[f] && (f.Parent() != nil || p.GoOnly[f]) {
			continue
		}
		cl := c.Of(f)
		if cl.Has(EIdxWLive) || cl.Has(ECfgW) {
			jobs = append(jobs, exploreJob{f, Valuation{Cache: triNo, Async: triNo}}, exploreJob{f, Valuation{Cache: triYes, Async: triNo}})
			r.Entries = append(r.Entries, FuncName(f))
		}
	}
	exploreAll(p, c, jobs, mask, r, func(j exploreJob) Listener {
		return &effListener{p: p, r: r, root: j.root, val: j.val, onReturn: func(l *effListener, x *Explorer, st *State, ret *ssa.Return, res []Fact) {
			e, has := errResult(l.root, res)
			if has && e == triNo {
				return
			}
			fn := FuncName(l.root)
			if st.may.Has(EDirty) {
				l.bad("C04.R1", fn, "commit before successful return", "a synchronous-mode call can return successfully after changing the live index or the settings without committing the schema: abandoning the handle then loses the change", l.p.Pos(ret.Pos()), x, st, ret)
			} else if st.may.Has(EIdxWLive) || st.may.Has(ECfgW) {
				l.ok("C04.R1", fn, "commit before successful return", l.p.Pos(ret.Pos()))
			}
		}}
	}, nil)

	// R7: the batch entry commits whatever it inserted, also when it stops half-way
	r.Rule("C04.R7", "a batch that stops half-way still commits: every return of the batch entry that can follow an insertion into the live index is preceded by the schema commit (the n objects it reports as inserted are acknowledged writes: abandoning the handle must not lose them)", 1)
	if many := p.FuncByName("DB.InsertOrUpdateMany"); many != nil {
		exploreAll(p, c, jobsFor([]*ssa.Function{many}, []Valuation{{Cache: triNo, Async: triNo}, {Cache: triYes, Async: triNo}}), effs(EIdxWLive, ECallCommit, EDirty, ECfgW, EFsWSchema), r, func(j exploreJob) Listener {
			return &effListener{p: p, r: r, root: j.root, val: j.val, onEvent: func(l *effListener, x *Explorer, st *State, ev *Event) {
				// a commit call made after the index was touched (the schema acquisition may also write a schema file,
				// before anything is inserted)
				if ev.Kind == EvEffect && ev.Eff == EIdxWLive {
					st.User &^= 16
				}
				if ev.Kind == EvEffect && ev.Eff == ECallCommit && st.may.Has(EIdxWLive) {
					st.User |= 16
				}
			}, onReturn: func(l *effListener, x *Explorer, st *State, ret *ssa.Return, res []Fact) {
				if !st.may.Has(EIdxWLive) {
					return
				}
				if st.User&16 != 0 {
					l.ok("C04.R7", FuncName(many), "commit on every return after an insertion", l.p.Pos(ret.Pos()))
				} else {
					l.bad("C04.R7", FuncName(many), "commit on every return after an insertion", "the batch entry can return (with an error) after objects were inserted into the live index and written, without committing the schema: the objects it reports as inserted are on disk but a new handle finds a schema that does not index them", l.p.Pos(ret.Pos()), x, st, ret)
				}
			}}
		}, nil)
	} else {
		r.Report("C04.R7", "DB.InsertOrUpdateMany", "entry", Undecided, "batch entry not found", "", nil, false)
	}

	// R2
	if cl := p.FuncByName("DB.Close"); cl != nil {
		m2 := effs(ECancel, ECallFlushPend, ECallCommit)
		exploreAll(p, c, jobsFor([]*ssa.Function{cl}, configVals), m2, r, func(j exploreJob) Listener {
			return &effListener{p: p, r: r, root: j.root, val: j.val, onReturn: func(l *effListener, x *Explorer, st *State, ret *ssa.Return, res []Fact) {
				miss := needMissing(st.must, ECancel, ECallFlushPend)
				if miss == "" {
					l.ok("C04.R2", FuncName(cl), "cancel+flush on every return", l.p.Pos(ret.Pos()))
				} else {
					l.bad("C04.R2", FuncName(cl), "cancel+flush on every return", "Close can return without: "+miss, l.p.Pos(ret.Pos()), x, st, ret)
				}
			}}
		}, nil)
		n := exploreLoops(p, c, r, cl, func(lp natLoop, cls EffSet) bool { return cls.Has(EFsWSchema) && loopRangesField(lp, p.A.DBSchemas) }, []Valuation{{}}, m2,
			func(lp natLoop, idx int, val Valuation) *effListener {
				l := &effListener{p: p, r: r, root: cl, val: val}
				l.onEnd = func(l *effListener, x *Explorer, st *State, reason string) {
					if reason != "backedge" {
						return
					}
					if st.iter.Has(ECallCommit) {
						l.ok("C04.R2", FuncName(cl), "commit per schema", "")
					} else {
						l.bad("C04.R2", FuncName(cl), "commit per schema", "an iteration of Close's schema loop does not call the schema commit", "", x, st, nil)
					}
				}
				l.onReturn = func(l *effListener, x *Explorer, st *State, ret *ssa.Return, res []Fact) {
					if st.trackIter && !st.iter.Empty() {
						l.bad("C04.R2", FuncName(cl), "no early exit from the schema loop", "Close can return from inside its schema loop: later schemas are not committed", l.p.Pos(ret.Pos()), x, st, ret)
					}
				}
				return l
			}, nil)
		if n == 0 {
			r.Report("C04.R2", FuncName(cl), "commit per schema", Violated, "Close has no loop committing every loaded schema", "", nil, true)
		} else {
			r.Report("C04.R2", FuncName(cl), "schema loop present", Discharged, "", "", nil, true)
		}
	} else {
		r.Report("C04.R2", "DB.Close", "entry", Undecided, "Close not found", "", nil, false)
	}

	// R6: what is committed is the published schema
	r.Rule("C04.R6", "every schema encoding that feeds the schema file encodes the schema that is (or is about to be) published in the table: a value obtained from the table, or, when no schema could be acquired, the new one", 3)
	var j6 []exploreJob
	for _, f := range apiRoots(p) {
		if f.Parent() == nil && c.Of(f).Has(EJsonEncSchema) {
			j6 = append(j6, exploreJob{f, Valuation{Cache: triNo, Async: triNo}})
		}
	}
	exploreAll(p, c, j6, effs(EOkSchema), r, func(j exploreJob) Listener {
		return &effListener{p: p, r: r, root: j.root, val: j.val, onEvent: func(l *effListener, x *Explorer, st *State, ev *Event) {
			if ev.Kind != EvEffect || ev.Eff != EJsonEncSchema {
				return
			}
			fn := FuncName(l.root)
			if ev.Tags&TFromTbl != 0 || !st.must.Has(EOkSchema) {
				l.ok("C04.R6", fn, "commit encodes the published schema", l.p.Pos(ev.Instr.Pos()))
			} else {
				l.bad("C04.R6", fn, "commit encodes the published schema", "a schema value that is not the one held in the schema table is written to the schema file although a schema was acquired: the file would not reflect the live index", l.p.Pos(ev.Instr.Pos()), x, st, ev.Instr)
			}
		}}
	}, nil)

	checkCodecSiblings(p, r, "C04.R3")
	checkRehydration(p, c, r, "C04.R4")
	checkLossyDetour(p, r, "C04.R5")
}

func init() { register("C04", checkC04) }

// jsonKeys computes the JSON object keys encoding/json uses for a struct type (exported, tag-aware).
func jsonKeys(t types.Type) map[string]string {
	out := map[string]string{}
	s, ok := t.Underlying().(*types.Struct)
	if !ok {
		return out
	}
	for i := 0; i < s.NumFields(); i++ {
		f := s.Field(i)
		if !f.Exported() {
			continue
		}
		name := f.Name()
		tag := reflectTag(s.Tag(i), "json")
		opts := ""
		if tag != "" {
			parts := strings.Split(tag, ",")
			if parts[0] == "-" && len(parts) == 1 {
				continue
			}
			if parts[0] != "" {
				name = parts[0]
			}
			if len(parts) > 1 {
				opts = strings.Join(parts[1:], ",")
			}
		}
		kind := types.TypeString(f.Type().Underlying(), func(p *types.Package) string { return p.Name() })
		if n := named(f.Type()); n != nil {
			kind = n.Obj().Name()
			if _, isPtr := f.Type().(*types.Pointer); isPtr {
				kind = "*" + kind
			}
		}
		out[name] = kind + "|" + opts
	}
	return out
}

func reflectTag(tag, key string) string {
	for tag != "" {
		i := 0
		for i < len(tag) && tag[i] == ' ' {
			i++
		}
		tag = tag[i:]
		if tag == "" {
			break
		}
		i = 0
		for i < len(tag) && tag[i] > ' ' && tag[i] != ':' && tag[i] != '"' {
			i++
		}
		if i == 0 || i+1 >= len(tag) || tag[i] != ':' || tag[i+1] != '"' {
			break
		}
		name := tag[:i]
		tag = tag[i+1:]
		i = 1
		for i < len(tag) && tag[i] != '"' {
			if tag[i] == '\\' {
				i++
			}
			i++
		}
		if i >= len(tag) {
			break
		}
		val := tag[1:i]
		tag = tag[i+1:]
		if name == key {
			return val
		}
	}
	return ""
}

// marshalArgType: the static type handed to json.Marshal/Unmarshal inside fn (first such call).
func codecArgTypes(p *Prog, fn *ssa.Function, kind extKind) []types.Type {
	var out []types.Type
	if fn == nil {
		return nil
	}
	for _, b := range fn.Blocks {
		for _, in := range b.Instrs {
			call, ok := in.(*ssa.Call)
			if !ok || classifyExternal(call.Call.StaticCallee()) != kind {
				continue
			}
			idx := 0
			if kind == xJsonUnmarshal {
				idx = 1
			}
			v := call.Call.Args[idx]
			for {
				if mi, ok := v.(*ssa.MakeInterface); ok {
					v = mi.X
					continue
				}
				break
			}
			t := v.Type()
			if pt, ok := t.Underlying().(*types.Pointer); ok {
				t = pt.Elem()
			}
			out = append(out, t)
		}
	}
	return out
}

func checkCodecSiblings(p *Prog, r *Result, rule string) {
	a := p.A
	cmp := func(name string, w, rd map[string]string) {
		var diff []string
		for k, v := range w {
			if rv, ok := rd[k]; !ok {
				diff = append(diff, "written key "+k+" is not read")
			} else if strings.Split(rv, "|")[0] != strings.Split(v, "|")[0] {
				diff = append(diff, fmt.Sprintf("key %s written as %s read as %s", k, v, rv))
			}
		}
		for k := range rd {
			if _, ok := w[k]; !ok {
				diff = append(diff, "read key "+k+" is never written")
			}
		}
		if len(diff) == 0 {
			r.Report(rule, name, "writer keys = reader keys", Discharged, fmt.Sprintf("%d keys", len(w)), "", nil, true)
		} else {
			r.Report(rule, name, "writer keys = reader keys", Violated, strings.Join(diff, "; "), "", nil, true)
		}
	}
	// types with MarshalJSON+UnmarshalJSON: compare the struct handed to Marshal with the one handed to Unmarshal
	for _, n := range []*types.Named{a.Async, a.ObjIndex} {
		if n == nil {
			continue
		}
		mw := codecArgTypes(p, p.FuncByName(n.Obj().Name()+".MarshalJSON"), xJsonMarshal)
		mr := codecArgTypes(p, p.FuncByName(n.Obj().Name()+".UnmarshalJSON"), xJsonUnmarshal)
		if len(mw) != 1 || len(mr) != 1 {
			r.Report(rule, n.Obj().Name(), "writer keys = reader keys", Undecided, "custom codec does not have exactly one Marshal and one Unmarshal call", "", nil, false)
			continue
		}
		cmp(n.Obj().Name(), jsonKeys(mw[0]), jsonKeys(mr[0]))
	}
	// fieldIndex: default marshal (its own tags) vs the struct its UnmarshalJSON decodes into
	if a.FieldIndex != nil {
		mr := codecArgTypes(p, p.FuncByName(a.FieldIndex.Obj().Name()+".UnmarshalJSON"), xJsonUnmarshal)
		if p.FuncByName(a.FieldIndex.Obj().Name()+".MarshalJSON") != nil || len(mr) != 1 {
			r.Report(rule, a.FieldIndex.Obj().Name(), "writer keys = reader keys", Undecided, "unexpected codec shape for the field index", "", nil, false)
		} else {
			cmp(a.FieldIndex.Obj().Name(), jsonKeys(a.FieldIndex), jsonKeys(mr[0]))
		}
	}
	// Schema: default codec both ways; its keys are the format (C18). Nothing to compare.
	// indexedField tuple: element 0 from Value, element 1 from ObjectId; decoder stores tuple[0]->Value, tuple[1]->ObjectId
	if a.IndexedField != nil {
		name := a.IndexedField.Obj().Name()
		enc := p.FuncByName(name + ".MarshalJSON")
		dec := p.FuncByName(name + ".UnmarshalJSON")
		encOrder, decOrder := tupleOrderEnc(p, enc), tupleOrderDec(p, dec)
		want := []string{a.IFValue.Name(), a.IFObjectId.Name()}
		if fmt.Sprint(encOrder) == fmt.Sprint(want) && fmt.Sprint(decOrder) == fmt.Sprint(want) {
			r.Report(rule, name, "tuple [value,id] both ways", Discharged, "", "", nil, true)
		} else {
			r.Report(rule, name, "tuple [value,id] both ways", Violated, fmt.Sprintf("encoder writes %v, decoder reads %v, expected %v", encOrder, decOrder, want), "", nil, true)
		}
	}
}

// tupleOrderEnc: which struct fields flow into element i of the slice literal passed to json.Marshal.
func tupleOrderEnc(p *Prog, fn *ssa.Function) []string {
	if fn == nil {
		return nil
	}
	order := map[int64]string{}
	for _, b := range fn.Blocks {
		for _, in := range b.Instrs {
			st, ok := in.(*ssa.Store)
			if !ok {
				continue
			}
			ia, ok := st.Addr.(*ssa.IndexAddr)
			if !ok {
				continue
			}
			c, ok := ia.Index.(*ssa.Const)
			if !ok {
				continue
			}
			v := st.Val
			for {
				switch x := v.(type) {
				case *ssa.MakeInterface:
					v = x.X
					continue
				case *ssa.ChangeInterface:
					v = x.X
					continue
				}
				break
			}
			if _, f, _ := loadedField(v); f != nil {
				order[c.Int64()] = f.Name()
			}
		}
	}
	var out []string
	for i := int64(0); i < int64(len(order)); i++ {
		out = append(out, order[i])
	}
	return out
}

// tupleOrderDec: which tuple index flows into which struct field.
func tupleOrderDec(p *Prog, fn *ssa.Function) []string {
	if fn == nil {
		return nil
	}
	res := map[int64]string{}
	var origin func(v ssa.Value, depth int) (int64, bool)
	origin = func(v ssa.Value, depth int) (int64, bool) {
		if depth > 12 {
			return 0, false
		}
		switch x := v.(type) {
		case *ssa.UnOp:
			if ia, ok := x.X.(*ssa.IndexAddr); ok {
				if c, ok := ia.Index.(*ssa.Const); ok {
					return c.Int64(), true
				}
			}
			return 0, false
		case *ssa.Convert:
			return origin(x.X, depth+1)
		case *ssa.TypeAssert:
			return origin(x.X, depth+1)
		case *ssa.Extract:
			return origin(x.Tuple, depth+1)
		case *ssa.ChangeType:
			return origin(x.X, depth+1)
		case *ssa.MakeInterface:
			return origin(x.X, depth+1)
		case *ssa.Phi:
			for _, e := range x.Edges {
				if i, ok := origin(e, depth+1); ok {
					return i, true
				}
			}
		case *ssa.Call:
			for _, a := range x.Call.Args {
				if i, ok := origin(a, depth+1); ok {
					return i, true
				}
			}
		}
		return 0, false
	}
	for _, b := range fn.Blocks {
		for _, in := range b.Instrs {
			st, ok := in.(*ssa.Store)
			if !ok {
				continue
			}
			if n, f, _ := fieldOf(st.Addr); n == p.A.IndexedField {
				if i, ok := origin(st.Val, 0); ok {
					res[i] = f.Name()
				}
			}
		}
	}
	var out []string
	for i := int64(0); i < int64(len(res)); i++ {
		out = append(out, res[i])
	}
	return out
}

// checkRehydration: non-serialised fields are assigned before publication.
func checkRehydration(p *Prog, c *Closures, r *Result, rule string) {
	a := p.A
	// (1) Schema: db/object/transformers assigned before every TBL.w on every entry that writes the table
	bits := map[*types.Var]uint64{a.SchDB: 1, a.SchObject: 2, a.SchTransformers: 4}
	var jobs []exploreJob
	for _, name := range []string{"DB.loadSchema", "DB.Create"} {
		if f := p.FuncByName(name); f != nil {
			jobs = append(jobs, exploreJob{f, Valuation{}})
		} else {
			r.Report(rule, name, "entry", Undecided, "function not found", "", nil, false)
		}
	}
	exploreAll(p, c, jobs, EffSet{}, r, func(j exploreJob) Listener {
		return &effListener{p: p, r: r, root: j.root, val: j.val, onEvent: func(l *effListener, x *Explorer, st *State, ev *Event) {
			switch ev.Kind {
			case EvAccess:
				if ev.Write && ev.Struct == a.Schema {
					if b, ok := bits[ev.Field]; ok {
						st.User |= b
					}
				}
			case EvEffect:
				if ev.Eff == ETblW {
					fn := FuncName(st.top().fn)
					if st.User&7 == 7 {
						l.ok(rule, fn, "Schema.{db,object,transformers} set before publication", l.p.Pos(ev.Instr.Pos()))
					} else {
						var miss []string
						for f, b := range bits {
							if st.User&b == 0 && f != nil {
								miss = append(miss, f.Name())
							}
						}
						l.bad(rule, fn, "Schema.{db,object,transformers} set before publication", "schema published in the table without rehydrating "+strings.Join(miss, ", "), l.p.Pos(ev.Instr.Pos()), x, st, ev.Instr)
					}
				}
			}
		}}
	}, nil)
	// (2) decoders: unexported fields of objIndex / fieldIndex assigned on every nil return of UnmarshalJSON
	for _, n := range []*types.Named{a.ObjIndex, a.FieldIndex} {
		if n == nil {
			continue
		}
		fn := p.FuncByName(n.Obj().Name() + ".UnmarshalJSON")
		if fn == nil {
			r.Report(rule, n.Obj().Name(), "UnmarshalJSON", Undecided, "decoder not found", "", nil, false)
			continue
		}
		s := structOf(n)
		fbits := map[*types.Var]uint64{}
		var names []string
		for i := 0; i < s.NumFields(); i++ {
			if !s.Field(i).Exported() {
				fbits[s.Field(i)] = 1 << uint(len(fbits))
				names = append(names, s.Field(i).Name())
			}
		}
		all := uint64(1)<<uint(len(fbits)) - 1
		exploreAll(p, c, []exploreJob{{fn, Valuation{}}}, EffSet{}, r, func(j exploreJob) Listener {
			return &effListener{p: p, r: r, root: j.root, val: j.val,
				onEvent: func(l *effListener, x *Explorer, st *State, ev *Event) {
					if ev.Kind == EvAccess && ev.Write && ev.Struct == n && (len(st.frames) == 1 || decoderOf(st.top().fn) == fn) {
						if b, ok := fbits[ev.Field]; ok {
							st.User |= b
						}
					}
				},
				onReturn: func(l *effListener, x *Explorer, st *State, ret *ssa.Return, res []Fact) {
					if e, _ := errResult(l.root, res); e == triNo {
						return
					}
					construct := "unexported fields {" + strings.Join(names, ",") + "} set on success"
					if st.User&all == all {
						l.ok(rule, FuncName(fn), construct, l.p.Pos(ret.Pos()))
					} else {
						var miss []string
						for f, b := range fbits {
							if st.User&b == 0 {
								miss = append(miss, f.Name())
							}
						}
						l.bad(rule, FuncName(fn), construct, "decoder can return nil without rebuilding "+strings.Join(miss, ", "), l.p.Pos(ret.Pos()), x, st, ret)
					}
				}}
		}, func(x *Explorer) { x.Opaque = EffSet{} })
	}
}

// checkLossyDetour: Convert float64 -> (u)int64 fed by a TypeAssert to float64 (decoded JSON number).
func checkLossyDetour(p *Prog, r *Result, rule string) {
	found := 0
	for _, fn := range p.Funcs {
		for _, b := range fn.Blocks {
			for _, in := range b.Instrs {
				cv, ok := in.(*ssa.Convert)
				if !ok {
					continue
				}
				from, ok1 := cv.X.Type().Underlying().(*types.Basic)
				to, ok2 := cv.Type().Underlying().(*types.Basic)
				if !ok1 || !ok2 || from.Kind() != types.Float64 || (to.Kind() != types.Int64 && to.Kind() != types.Uint64) {
					continue
				}
				src := cv.X
				if ex, ok := src.(*ssa.Extract); ok {
					src = ex.Tuple
				}
				ta, ok := src.(*ssa.TypeAssert)
				if !ok {
					continue
				}
				if _, isIface := ta.X.Type().Underlying().(*types.Interface); !isIface {
					continue
				}
				found++
				r.Report(rule, FuncName(fn), fmt.Sprintf("convert float64->%s of a decoded number", to.Name()), Violated,
					"an integer key or id is rebuilt from a float64 taken out of a decoded interface{}: values above 2^53 (64-bit ids, nanosecond timestamps) change on reload", p.Pos(cv.Pos()), nil, true)
			}
		}
	}
	if found == 0 {
		r.Report(rule, "-", "no float64 detour", Discharged, "no conversion float64->int64/uint64 of a type-asserted decoded value in the package", "", nil, true)
	}
}

var _ = token.ADD

// loopRangesField: the loop iterates (range) over the value of the given struct field.
func loopRangesField(lp natLoop, field *types.Var) bool {
	for _, b := range lp.blocks {
		for _, in := range b.Instrs {
			nx, ok := in.(*ssa.Next)
			if !ok {
				continue
			}
			rg, ok := nx.Iter.(*ssa.Range)
			if !ok {
				continue
			}
			if _, f, _ := loadedField(rg.X); f == field {
				return true
			}
		}
	}
	return false
}
