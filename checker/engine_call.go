package main

import (
	"go/types"
	"strings"

	"golang.org/x/tools/go/ssa"
)

// finish a call that was handled without inlining.
func (x *Explorer) doneCall(st *State, deferred bool) bool {
	if !deferred {
		st.top().pc++
	}
	return true
}

// defineResult binds the value of a non-inlined call.
func (x *Explorer) defineResult(st *State, site ssa.CallInstruction, deferred bool, facts ...Fact) {
	if deferred {
		return
	}
	v, ok := site.(ssa.Value)
	if !ok {
		return
	}
	res := site.Common().Signature().Results()
	if res.Len() <= 1 {
		f := Fact{}
		if len(facts) > 0 {
			f = facts[0]
		}
		x.applyKnown(st, &f)
		st.define(v, f)
		return
	}
	st.define(v, Fact{})
	d := st.depth()
	for i := 0; i < res.Len(); i++ {
		f := Fact{}
		if i < len(facts) {
			f = facts[i]
		}
		x.applyKnown(st, &f)
		st.facts[Sym{d: d, i: int32(i + 1), v: v}] = f
	}
}

// applyKnown: a fact that is already decided releases its pending effects.
func (x *Explorer) applyKnown(st *State, f *Fact) {
	f.OkNil = f.OkNil.Inter(st.mask)
	f.OkTrue = f.OkTrue.Inter(st.mask)
	if f.Nil == triNo {
		f.OkNil = EffSet{}
	}
	if f.Nil == triYes && !f.OkNil.Empty() {
		st.addSet(f.OkNil)
		f.OkNil = EffSet{}
	}
	if f.Bool == triYes && !f.OkTrue.Empty() {
		st.addSet(f.OkTrue)
		f.OkTrue = EffSet{}
	}
}

func (x *Explorer) pathKind(t Tag, obj, schema, other Eff) Eff {
	switch {
	case t&TSchemaPath != 0:
		return schema
	case t&TObjName != 0:
		return obj
	}
	return other
}

// genericResults builds unknown results that inherit data tags from the arguments.
func (x *Explorer) genericResults(st *State, cc *ssa.CallCommon) []Fact {
	var t Tag
	for _, a := range cc.Args {
		t |= x.tagsOf(st, a) & (TSchemaPath | TObjName)
	}
	res := cc.Signature().Results()
	out := make([]Fact, res.Len())
	for i := range out {
		if !isErrorType(res.At(i).Type()) {
			out[i].Tags = t
		}
	}
	return out
}

func (x *Explorer) lockClass(recv ssa.Value) string {
	a := x.P.A
	if fa, ok := recv.(*ssa.FieldAddr); ok {
		n := named(fa.X.Type())
		switch {
		case n == a.DB:
			if s := structOf(n); s != nil && s.Field(fa.Field) == a.DBLock {
				return "H"
			}
			return "T"
		case n == a.ObjectStore:
			return "S"
		case n == a.ObjectMap:
			return "M"
		}
		return "T"
	}
	return "T"
}

func (x *Explorer) call(st *State, site ssa.CallInstruction, cc *ssa.CallCommon, deferred bool) bool {
	a := x.P.A
	// --- builtins
	if b, ok := cc.Value.(*ssa.Builtin); ok {
		switch b.Name() {
		case "append":
			f := Fact{Nil: triNo}
			if len(cc.Args) > 0 {
				f0 := st.factOf(cc.Args[0])
				f.Tags = f0.Tags
				// append(nil, empty...) is nil: the result is only known non-nil when the first operand is
				if f0.Nil != triNo {
					f.Nil = triUnk
					// appending explicit elements (not a spread slice) always yields a non-nil slice
					if len(cc.Args) == 2 {
						if sl, ok := cc.Args[1].(*ssa.Slice); ok {
							if _, isAlloc := sl.X.(*ssa.Alloc); isAlloc {
								f.Nil = triNo
							}
						}
					}
				}
				if f0.Nil == triYes {
					f.Tags |= TFresh
				}
				if _, isConst := cc.Args[0].(*ssa.Const); isConst {
					f.Tags |= TFresh
				}
				x.accessOfLoadedContainer(st, site, cc.Args[0], false)
				x.L.Event(x, st, &Event{Kind: EvAliasWrite, Instr: site, Tags: f0.Tags})
			}
			x.defineResult(st, site, deferred, f)
		case "delete":
			if len(cc.Args) > 0 {
				x.mapEvent(st, site, cc.Args[0], "delete")
			}
		case "len", "cap":
			if len(cc.Args) > 0 {
				if n, f, _ := loadedField(cc.Args[0]); n != nil && n.Obj().Pkg() == x.P.Types {
					x.L.Event(x, st, &Event{Kind: EvAccess, Instr: site, Struct: n, Field: f, Tags: x.tagsOf(st, cc.Args[0])})
					if n == a.ObjectMap && f == a.InnerMap {
						x.emit(st, &Event{Kind: EvEffect, Eff: EIterStore, Instr: site, Tags: x.tagsOf(st, cc.Args[0])})
					}
				}
			}
			x.defineResult(st, site, deferred, Fact{})
		case "copy":
			if len(cc.Args) > 0 {
				x.accessOfLoadedContainer(st, site, cc.Args[0], true)
				if n, f, _ := loadedField(sliceBase(cc.Args[0])); n == a.FieldIndex && f == a.FIIndex {
					bt := x.tagsOf(st, cc.Args[0])
					x.emit(st, &Event{Kind: EvEffect, Eff: x.subject3(bt, EIdxWLive, EIdxWTemp, EIdxWUnk), Instr: site, Tags: bt, Struct: n, Field: f})
				}
			}
			x.defineResult(st, site, deferred, Fact{})
		default:
			x.defineResult(st, site, deferred, Fact{})
		}
		return x.doneCall(st, deferred)
	}
	// --- interface method calls
	if cc.IsInvoke() {
		switch {
		case named(cc.Value.Type()) == a.Object:
			var e Eff
			res := Fact{}
			switch cc.Method.Name() {
			case "Transform":
				e = EHookT
			case "Validate":
				e = EHookV
				res.OkNil = effs(EOkValid)
			case "Initialize":
				e = EHookI
			case "UUID":
				e = EHookU
				res.Tags = TObjName
			}
			x.emit(st, &Event{Kind: EvEffect, Eff: e, Instr: site, Tags: x.tagsOf(st, cc.Value)})
			if e == EHookI {
				// after Initialize the object carries an identifier
				x.emit(st, &Event{Kind: EvEffect, Eff: ECallInit, Instr: site, Tags: x.tagsOf(st, cc.Value)})
			}
			x.defineResult(st, site, deferred, res)
		case cc.Method.Name() == "Close" && (isNamedFrom(cc.Value.Type(), "io", "WriteCloser") || isNamedFrom(cc.Value.Type(), "io", "Closer") || isNamedFrom(cc.Value.Type(), "io", "ReadCloser")):
			x.emit(st, &Event{Kind: EvEffect, Eff: ECloseIface, Instr: site})
			x.defineResult(st, site, deferred, x.genericResults(st, cc)...)
		case isNamedFrom(cc.Value.Type(), "context", "Context") && cc.Method.Name() == "Err":
			x.emit(st, &Event{Kind: EvEffect, Eff: ECtxErr, Instr: site})
			x.defineResult(st, site, deferred, Fact{})
		default:
			x.defineResult(st, site, deferred, x.genericResults(st, cc)...)
		}
		return x.doneCall(st, deferred)
	}
	callee := cc.StaticCallee()
	var closure *ssa.MakeClosure
	if mc, ok := cc.Value.(*ssa.MakeClosure); ok {
		closure = mc
		callee = mc.Fn.(*ssa.Function)
	}
	if callee == nil {
		// dynamic call through a function value
		if n, fv, _ := loadedField(cc.Value); n == a.DB && fv == a.DBCancel {
			x.emit(st, &Event{Kind: EvEffect, Eff: ECancel, Instr: site})
		}
		x.defineResult(st, site, deferred, x.genericResults(st, cc)...)
		return x.doneCall(st, deferred)
	}
	if callee.Blocks == nil || !inSod(x.P, callee) {
		x.external(st, site, cc, callee, deferred)
		return x.doneCall(st, deferred)
	}
	// --- sod function with a body
	x.L.Event(x, st, &Event{Kind: EvCall, Instr: site, Callee: callee})
	x.callLevel(st, site, cc, callee)
	if obj, _ := callee.Object().(*types.Func); obj != nil {
		var t tri
		switch obj {
		case a.IsFileAndExist:
			t = x.Val.FileExists
		case a.MustCache:
			switch {
			case x.Val.Cache == triYes || x.Val.Async == triYes:
				t = triYes
			case x.Val.Cache == triNo && x.Val.Async == triNo:
				t = triNo
			}
		case a.AsyncEnabled:
			t = x.Val.Async
		}
		if t != triUnk {
			if obj == a.AsyncEnabled && t == triYes && len(cc.Args) > 0 && a.SchAsync != nil {
				// async writes enabled implies the settings pointer is set
				if _, isConst := cc.Args[0].(*ssa.Const); !isConst {
					base := st.symOf(cc.Args[0])
					if _, ok := st.facts[base]; !ok {
						st.facts[base] = Fact{}
					}
					st.env[vkey{st.depth(), cc.Args[0]}] = base
					ms := Sym{d: st.depth(), i: 7, v: cc.Args[0]}
					st.facts[ms] = Fact{Nil: triNo}
					if st.memo == nil {
						st.memo = map[memoKey]Sym{}
					}
					st.memo[memoKey{base, a.SchAsync}] = ms
				}
			}
			x.defineResult(st, site, deferred, Fact{Bool: t})
			return x.doneCall(st, deferred)
		}
	}
	if cl := x.C.Of(callee); x.Opaque.Contains(cl) {
		// effect-free helper: not inlined
		st.may = st.may.Union(cl.Inter(st.mask))
		x.defineResult(st, site, deferred, x.genericResults(st, cc)...)
		return x.doneCall(st, deferred)
	}
	if st.onStack(callee) || len(st.frames) >= x.MaxDepth {
		// recursion / depth cut: apply the call-graph closure as may-effects
		cl := x.C.Of(callee)
		st.may = st.may.Union(cl.Inter(st.mask))
		if len(st.frames) >= x.MaxDepth {
			x.undecided("inlining depth %d exceeded at %s", x.MaxDepth, x.Stack(st, site.Pos()))
		}
		x.L.Event(x, st, &Event{Kind: EvCallRet, Instr: site, Callee: callee})
		x.defineResult(st, site, deferred, x.genericResults(st, cc)...)
		return x.doneCall(st, deferred)
	}
	// push frame
	caller := st.depth()
	type pb struct {
		p ssa.Value
		s Sym
		f Fact
		c bool
	}
	var binds []pb
	bindArg := func(p ssa.Value, arg ssa.Value) {
		switch arg.(type) {
		case *ssa.Const, *ssa.Global, *ssa.Function:
			f := st.factOf(arg)
			f.Tags |= x.tagsOf(st, arg)
			binds = append(binds, pb{p: p, f: f, c: true})
		default:
			s := st.symOf(arg)
			if _, ok := st.facts[s]; !ok {
				st.facts[s] = Fact{}
			}
			binds = append(binds, pb{p: p, s: s})
		}
	}
	for i, p := range callee.Params {
		if i < len(cc.Args) {
			bindArg(p, cc.Args[i])
		}
	}
	if closure != nil {
		for i, fv := range callee.FreeVars {
			if i < len(closure.Bindings) {
				bindArg(fv, closure.Bindings[i])
			}
		}
	}
	_ = caller
	st.frames = append(st.frames, Frame{fn: callee, blk: callee.Blocks[0], site: site, deferred: deferred, mustAtCall: st.must})
	for _, b := range binds {
		if b.c {
			st.define(b.p, b.f)
		} else {
			st.alias(b.p, b.s)
		}
	}
	// what is known about the emptiness of a caller's slice parameter holds for the callee's parameter it is passed as
	d := st.depth()
	for i, prm := range callee.Params {
		if i < len(cc.Args) {
			if t, ok := st.lenpos[vkey{d - 1, cc.Args[i]}]; ok && t != triUnk {
				if st.lenpos == nil {
					st.lenpos = map[vkey]tri{}
				}
				st.lenpos[vkey{d, prm}] = t
			}
		}
	}
	return true
}

func sliceBase(v ssa.Value) ssa.Value {
	for {
		if s, ok := v.(*ssa.Slice); ok {
			v = s.X
			continue
		}
		return v
	}
}

// classOk computes the success facts a call to callee grants when its error result is nil.
func (x *Explorer) classOk(st *State, callee *ssa.Function, delta EffSet) EffSet {
	cl := x.C.Of(callee)
	var ok EffSet
	if cl.Has(EErrUnique) {
		ok = ok.With(EOkUniq)
		if cl.Has(EIdxWLive) {
			ok = ok.With(EOkAccept)
		}
	}
	if cl.Has(ETblR) && returnsSchema(x.P, callee) {
		ok = ok.With(EOkSchema)
	}
	if cl.Has(EErrStructure) {
		ok = ok.With(EOkStruct)
	}
	if (cl.Has(EErrFieldDesc) || cl.Has(EErrExtension)) && !cl.Has(ETblR) && !cl.Has(EErrStructure) {
		ok = ok.With(EOkCompat)
	}
	if delta.Has(EFsRObj) && delta.Has(EJsonDec) {
		ok = ok.With(EOkObjRead)
	}
	return ok
}

func returnsSchema(p *Prog, f *ssa.Function) bool {
	res := f.Signature.Results()
	for i := 0; i < res.Len(); i++ {
		if named(res.At(i).Type()) == p.A.Schema {
			return true
		}
	}
	return false
}

func (x *Explorer) stepReturn(st *State, ret *ssa.Return) bool {
	fr := st.top()
	results := make([]Fact, len(ret.Results))
	for i, r := range ret.Results {
		results[i] = st.factOf(r)
		results[i].Tags |= x.tagsOf(st, r)
	}
	if len(st.frames) == 1 {
		x.Paths++
		x.L.Return(x, st, ret, results)
		return false
	}
	callee := fr.fn
	site := fr.site
	deferred := fr.deferred
	seen := fr.seen
	ok := x.classOk(st, callee, seen)
	// pop
	d := st.depth()
	st.frames = st.frames[:len(st.frames)-1]
	st.top().seen = st.top().seen.Union(seen)
	for k := range st.env {
		if k.d >= d {
			delete(st.env, k)
		}
	}
	for k := range st.cells {
		if k.d >= d {
			delete(st.cells, k)
		}
	}
	// what was learnt about a memoised field of an object that outlives the callee is kept
	type memoMove struct {
		k memoKey
		s Sym
		f Fact
	}
	var moves []memoMove
	for k, v := range st.memo {
		if k.base.d >= d {
			delete(st.memo, k)
		} else if v.d >= d {
			moves = append(moves, memoMove{k, Sym{d: k.base.d, i: 9, v: k.base.v}, st.facts[v]})
		}
	}
	for s := range st.facts {
		if s.d >= d {
			delete(st.facts, s)
		}
	}
	for _, m := range moves {
		st.facts[m.s] = m.f
		st.memo[m.k] = m.s
	}
	if site != nil {
		for i, prm := range callee.Params {
			if i < len(site.Common().Args) {
				if t, ok := st.lenpos[vkey{d, prm}]; ok && t != triUnk {
					switch site.Common().Args[i].(type) {
					case *ssa.Parameter, *ssa.FreeVar:
						st.lenpos[vkey{d - 1, site.Common().Args[i]}] = t
					}
				}
			}
		}
	}
	for k := range st.lenpos {
		if k.d >= d {
			delete(st.lenpos, k)
		}
	}
	if ok.Has(EOkUniq) && callee.Signature.Recv() != nil && len(site.Common().Args) > 0 && named(callee.Signature.Recv().Type()) == x.P.A.ObjIndex {
		rt := x.tagsOf(st, site.Common().Args[0])
		switch {
		case rt&TLive != 0:
			ok = ok.With(EOkUniqLive)
		case rt&(TFresh|TDecoded) != 0:
			ok = ok.With(EOkUniqTemp)
			if ok.Has(EOkAccept) {
				ok = ok.With(EOkAcceptTemp)
			}
		}
	}
	for i := range results {
		if i < callee.Signature.Results().Len() && isErrorType(callee.Signature.Results().At(i).Type()) {
			results[i].OkNil = results[i].OkNil.Union(ok)
		}
		// the schema handed out by the schema acquisition is the published one
		if ok.Has(EOkSchema) && i < callee.Signature.Results().Len() && named(callee.Signature.Results().At(i).Type()) == x.P.A.Schema {
			results[i].Tags |= TFromTbl
		}
	}
	// a function without an error result grants its class facts unconditionally
	hasErr := false
	for i := 0; i < callee.Signature.Results().Len(); i++ {
		if isErrorType(callee.Signature.Results().At(i).Type()) {
			hasErr = true
		}
	}
	_ = hasErr
	// the case-transform routine proper: it can change case and runs no object hook (a helper that wraps the hooks and
	// the routine is not the routine: the inner call already produced the event)
	if cl := x.C.Of(callee); cl.Has(ECase) && !cl.Has(EHookT) && !cl.Has(EHookV) {
		st.add(ECanon)
		x.L.Event(x, st, &Event{Kind: EvEffect, Eff: ECanon, Instr: site, Callee: callee})
	}
	x.L.Event(x, st, &Event{Kind: EvCallRet, Instr: site, Callee: callee, Results: results})
	if deferred {
		return true // parent is still at its RunDefers
	}
	x.defineResult(st, site, false, results...)
	st.top().pc++
	return true
}

// external applies the effect of a call into another package.
func (x *Explorer) external(st *State, site ssa.CallInstruction, cc *ssa.CallCommon, callee *ssa.Function, deferred bool) {
	kind := classifyExternal(callee)
	argTags := func(i int) Tag {
		if i < len(cc.Args) {
			return x.tagsOf(st, cc.Args[i])
		}
		return 0
	}
	ev := func(e Eff, t Tag) {
		x.emit(st, &Event{Kind: EvEffect, Eff: e, Instr: site, Tags: t, Callee: callee})
	}
	res := x.genericResults(st, cc)
	switch kind {
	case xFsOpenFile:
		if len(cc.Args) >= 2 && openFlagWrites(cc.Args[1]) {
			ev(x.pathKind(argTags(0), EFsWObj, EFsWSchema, EFsWOther), argTags(0))
		} else {
			ev(x.pathKind(argTags(0), EFsRObj, EFsRSchema, EFsROther), argTags(0))
		}
	case xFsCreate, xFsWriteFile:
		ev(x.pathKind(argTags(0), EFsWObj, EFsWSchema, EFsWOther), argTags(0))
	case xFsOpen, xFsReadFile:
		ev(x.pathKind(argTags(0), EFsRObj, EFsRSchema, EFsROther), argTags(0))
	case xFsRemove:
		ev(x.pathKind(argTags(0), EFsRmObj, EFsRmSchema, EFsRmOther), argTags(0))
	case xFsRemoveAll:
		ev(EFsRmTree, argTags(0))
	case xFsRename:
		ev(EFsRename, argTags(0)|argTags(1))
	case xFsMkdir:
		ev(EFsMkdir, argTags(0))
	case xFsStat:
		ev(x.pathKind(argTags(0), EFsStatObj, EFsStatSchema, EFsStatOther), argTags(0))
	case xFsReadDir:
		ev(EFsReadDir, argTags(0))
	case xFsSync:
		ev(EFsSync, 0)
	case xFileClose:
		ev(ECloseFile, 0)
	case xGzip:
		if strings.HasPrefix(callee.Name(), "NewWriter") {
			ev(EGzipWriter, 0)
		}
	case xJsonMarshal:
		k := jsonEncKind(x.P, cc)
		if k == EJsonEncOther && argTags(0)&TParamObj != 0 {
			k = EJsonEncObj
		}
		ev(k, argTags(0))
		if k == EJsonEncObj && len(res) == 2 {
			res[1].OkNil = effs(EOkSer)
		}
	case xJsonUnmarshal:
		ev(EJsonDec, argTags(1))
		if len(cc.Args) >= 2 {
			switch cc.Args[1].(type) {
			case *ssa.Const, *ssa.Global:
			default:
				s := st.symOf(cc.Args[1])
				f := st.facts[s]
				f.Tags |= TDecoded
				st.env[vkey{st.depth(), cc.Args[1]}] = s
				st.facts[s] = f
			}
		}
	case xToUpperLower:
		ev(ECase, 0)
	case xSleep:
		ev(ESleep, 0)
	case xRegexpCompile:
		ev(ERegexp, 0)
	case xUuidNew:
		ev(EUuidNew, 0)
	case xWait:
		ev(EChan, 0)
	case xErrorf, xErrorsNew:
		for i := range res {
			res[i] = Fact{Nil: triNo}
		}
	case xErrorsIs:
		if len(cc.Args) == 2 {
			if ld, ok := cc.Args[1].(*ssa.UnOp); ok {
				if g, ok := ld.X.(*ssa.Global); ok && g.Object() == x.P.A.SentByName["ErrIndexCorrupted"] {
					ev(EIsCorruptedQ, 0)
					if x.Val.IsCorrupted != triUnk && len(res) == 1 {
						res[0].Bool = x.Val.IsCorrupted
					}
				}
			}
		}
	case xLock, xRLock, xUnlock, xRUnlock:
		class := "T"
		if len(cc.Args) > 0 {
			class = x.lockClass(cc.Args[0])
		}
		inst := 2
		if len(cc.Args) > 0 {
			t := x.tagsOf(st, cc.Args[0])
			switch {
			case t&TCache != 0 && t&TPend == 0:
				inst = 0
			case t&TPend != 0 && t&TCache == 0:
				inst = 1
			}
		}
		x.L.Event(x, st, &Event{Kind: EvLock, Instr: site, LockClass: class, LockInst: inst, LockOp: kind, Callee: callee})
		lk := &st.lk
		switch class {
		case "H":
			switch kind {
			case xLock:
				lk.H, lk.HDepth = 2, lk.HDepth+1
			case xRLock:
				if lk.H == 0 {
					lk.H = 1
				}
				lk.HDepth++
			case xUnlock, xRUnlock:
				if lk.HDepth > 0 {
					lk.HDepth--
				}
				if lk.HDepth == 0 {
					lk.H = 0
					// verdicts obtained in the critical section that ends here are stale from now on
					st.stale = st.stale.Union(st.must.Inter(okBitsEngine))
				}
			}
		case "S":
			switch kind {
			case xLock:
				lk.S++
				lk.Si[inst]++
				lk.SW = true
			case xRLock:
				lk.S++
				lk.Si[inst]++
			default:
				if lk.S > 0 {
					lk.S--
				}
				if lk.Si[inst] > 0 {
					lk.Si[inst]--
				}
				if lk.S == 0 {
					lk.SW = false
				}
			}
		case "M":
			switch kind {
			case xLock:
				lk.M++
				lk.Mi[inst]++
				lk.MW = true
			case xRLock:
				lk.M++
				lk.Mi[inst]++
			default:
				if lk.M > 0 {
					lk.M--
				}
				if lk.Mi[inst] > 0 {
					lk.Mi[inst]--
				}
				if lk.M == 0 {
					lk.MW = false
				}
			}
		default:
			switch kind {
			case xLock, xRLock:
				lk.T++
			default:
				if lk.T > 0 {
					lk.T--
				}
			}
		}
	}
	x.defineResult(st, site, deferred, res...)
}

// callLevel adds the derived call-level effects (a call of a given family was made on a given
// subject); they stand for data-dependent primitives guarded by presence tests in the callee.
func (x *Explorer) callLevel(st *State, site ssa.CallInstruction, cc *ssa.CallCommon, callee *ssa.Function) {
	if o := callee.Object(); o != nil && o.Pkg() == x.P.Types && o.Name() == "CloneObject" && callee.Signature.Recv() == nil {
		st.add(EClone)
		var ct Tag
		if len(cc.Args) > 0 {
			ct = x.tagsOf(st, cc.Args[0])
		}
		x.L.Event(x, st, &Event{Kind: EvEffect, Eff: EClone, Instr: site, Callee: callee, Tags: ct})
	}
	cl := x.C.Of(callee)
	if cl.Has(EJsonEncSchema) && cl.Has(EFsWSchema) {
		st.add(ECallCommit)
		x.L.Event(x, st, &Event{Kind: EvEffect, Eff: ECallCommit, Instr: site, Callee: callee})
	}
	if cl.Has(EGo) {
		st.add(ECallStarter)
		x.L.Event(x, st, &Event{Kind: EvEffect, Eff: ECallStarter, Instr: site, Callee: callee})
	}
	if cl.Has(EFsWObj) && !cl.Has(EErrUnique) && !cl.Has(EDelPend) && !cl.Has(EDelUnk) {
		st.add(ECallWriteObj)
		x.L.Event(x, st, &Event{Kind: EvEffect, Eff: ECallWriteObj, Instr: site, Callee: callee})
	}
	if callee.Signature.Recv() == nil || len(cc.Args) == 0 {
		return
	}
	a := x.P.A
	rt := x.tagsOf(st, cc.Args[0])
	rn := named(callee.Signature.Recv().Type())
	anyPut := cl.Has(EPutCache) || cl.Has(EPutPend) || cl.Has(EPutUnk)
	anyDel := cl.Has(EDelCache) || cl.Has(EDelPend) || cl.Has(EDelUnk)
	anyFsW := cl.Has(EFsWObj)
	if (rn == a.ObjectStore || rn == a.ObjectMap) && anyDel && !anyPut {
		if anyFsW {
			if rt&TPend != 0 && rt&TCache == 0 {
				st.add(ECallFlushPend)
				x.L.Event(x, st, &Event{Kind: EvEffect, Eff: ECallFlushPend, Instr: site, Callee: callee, Tags: rt})
			}
		} else {
			switch {
			case rt&TCache != 0 && rt&TPend == 0:
				st.add(ECallDelCache)
				x.L.Event(x, st, &Event{Kind: EvEffect, Eff: ECallDelCache, Instr: site, Callee: callee, Tags: rt})
			case rt&TPend != 0 && rt&TCache == 0:
				st.add(ECallDelPend)
				x.L.Event(x, st, &Event{Kind: EvEffect, Eff: ECallDelPend, Instr: site, Callee: callee, Tags: rt})
			}
		}
	}
	anyGet := cl.Has(EGetCache) || cl.Has(EGetPend) || cl.Has(EGetUnk)
	if (rn == a.ObjectStore || rn == a.ObjectMap) && anyGet && !anyPut && !anyDel && rt&TCache != 0 && rt&TPend == 0 {
		st.add(ECallGetCache)
		x.L.Event(x, st, &Event{Kind: EvEffect, Eff: ECallGetCache, Instr: site, Callee: callee, Tags: rt})
	}
	if rn == a.ObjIndex && cl.Has(EIdxWLive) && !cl.Has(EErrUnique) && rt&TLive != 0 && x.P.IsIndexDelete(callee) {
		st.add(ECallUnindex)
		x.L.Event(x, st, &Event{Kind: EvEffect, Eff: ECallUnindex, Instr: site, Callee: callee, Tags: rt})
	}
}
