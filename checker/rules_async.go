package main

import (
	"fmt"
	"go/token"
	"go/types"
	"strings"

	"golang.org/x/tools/go/ssa"
)

// ---- C10 ------------------------------------------------------------------------------

func checkC10(p *Prog, r *Result, tier string) {
	r.Rule("C10.R1", "finite evaluation of the caching predicate: mustCache() == Cache || (AsyncWrites != nil && AsyncWrites.Enable) over all 2x3 settings; asyncWritesEnabled() == (AsyncWrites != nil && Enable)", 2)
	r.Rule("C10.R2", "an accepted write under async puts the object in cache and pending store before returning (shared with C01.R1, re-evaluated here for the async valuations)", 2)
	r.Rule("C10.R3", "MUST-BEFORE: with caching on, every read of an object file for a lookup is preceded by a cache lookup call (a pending object is served from memory)", 1)
	r.Rule("C10.R4", "AT-RETURN(nil) of the schema acquisition under async: the flusher starter was called, on the table-hit branch and on the fresh-load branch alike", 1)
	r.Rule("C10.R5", "flusher critical section: the pending flush is called with the handle lock in write mode and after the context was re-checked under that lock", 1)
	r.Rule("C10.R6", "explicit flushes: FlushAll calls the pending flush on every return; FlushAllAndCommit calls flush and commit on every return regardless of the first error; every iteration of the map flush writes the object and drops the entry", 3)
	r.Rule("C10.R7", "a delete drops the pending entry (CALL.del(pending) on every successful delete under caching; shared with C01.R2)", 1)
	r.Rule("C10.R9", "a schema owns its settings object: on Create and on load, every pointer stored into the AsyncWrites field of a schema was allocated by the package during that call (a private copy, or the decoder's) or is nil; the caller's pointer, which one Schema value used for several collections shares between them, is never kept (the 'flusher started' flag lives in that object: with a shared one only the first collection gets a flusher)", 2)
	checkSettingsOwned(p, c0(p), r, "C10.R9")
	r.Rule("C10.R10", "the private copy starts without a flusher: in the reach of the schema initialisation, every settings object that is filled by copying a whole settings value has its unexported 'flusher started' flag stored false in the same function; a copy taken from settings that already run a flusher (those of db.Schema()) would otherwise never get one", 1)
	checkSettingsCopyReset(p, r, "C10.R10")
	r.NotDecided = []string{"that the threshold/timeout comparison fires in time (wall clock)", "that the flusher is not starved"}
	c := computeClosures(p)

	// R1
	checkCachePredicates(p, r, "C10.R1")

	// R2
	ins := rootsByName(p, r, "DB.InsertOrUpdate", "DB.InsertOrUpdateMany")
	asyncVals := []Valuation{{Cache: triNo, Async: triYes}, {Cache: triYes, Async: triYes}}
	exploreAll(p, c, jobsFor(ins, asyncVals), effs(EOkAccept, EPutCache, EPutPend), r, func(j exploreJob) Listener {
		return &effListener{p: p, r: r, root: j.root, val: j.val, onReturn: func(l *effListener, x *Explorer, st *State, ret *ssa.Return, res []Fact) {
			if e, _ := errResult(l.root, res); e == triNo || st.emptyInput() {
				return
			}
			if miss := needMissing(st.must, EOkAccept, EPutCache, EPutPend); miss == "" {
				l.ok("C10.R2", FuncName(l.root), "visible at once", l.p.Pos(ret.Pos()))
			} else {
				l.bad("C10.R2", FuncName(l.root), "visible at once", "an accepted async write returns without: "+miss, l.p.Pos(ret.Pos()), x, st, ret)
			}
		}}
	}, nil)

	// R3
	reads := rootsByName(p, r, "DB.Get", "DB.GetByUUID", "DB.All", "DB.Search")
	cacheVals := []Valuation{{Cache: triYes, Async: triNo}, {Cache: triNo, Async: triYes}}
	exploreAll(p, c, jobsFor(reads, cacheVals), effs(ECallGetCache), r, func(j exploreJob) Listener {
		return &effListener{p: p, r: r, root: j.root, val: j.val, onEvent: func(l *effListener, x *Explorer, st *State, ev *Event) {
			if ev.Kind != EvEffect || ev.Eff != EFsRObj {
				return
			}
			// the frame that decided to read
			fn := FuncName(st.top().fn)
			if len(st.frames) >= 2 {
				fn = FuncName(st.frames[len(st.frames)-2].fn)
			}
			if st.must.Has(ECallGetCache) {
				l.ok("C10.R3", fn, "cache consulted before the file", l.p.Pos(ev.Instr.Pos()))
			} else {
				l.bad("C10.R3", fn, "cache consulted before the file", "with caching on, an object file is read for a lookup without consulting the cache first: a pending (not yet flushed) object would not be found", l.p.Pos(ev.Instr.Pos()), x, st, ev.Instr)
			}
		}}
	}, nil)

	// R4
	if sch := p.FuncByName("DB.schema"); sch != nil {
		exploreAll(p, c, jobsFor([]*ssa.Function{sch}, asyncVals), effs(ECallStarter, ETblW), r, func(j exploreJob) Listener {
			return &effListener{p: p, r: r, root: j.root, val: j.val, onReturn: func(l *effListener, x *Explorer, st *State, ret *ssa.Return, res []Fact) {
				if e, _ := errResult(l.root, res); e == triNo {
					return
				}
				branch := "table hit"
				if st.must.Has(ETblW) {
					branch = "fresh load"
				}
				if st.must.Has(ECallStarter) {
					l.ok("C10.R4", FuncName(sch), "flusher starter called ("+branch+")", l.p.Pos(ret.Pos()))
				} else {
					l.bad("C10.R4", FuncName(sch), "flusher starter called ("+branch+")", "the schema acquisition can succeed ("+branch+" branch) without calling the flusher starter: with async writes on, objects accepted afterwards are never flushed by threshold or timeout", l.p.Pos(ret.Pos()), x, st, ret)
				}
			}}
		}, func(x *Explorer) { x.AssumeTblStable = false })
	} else {
		r.Report("C10.R4", "DB.schema", "entry", Undecided, "schema acquisition function not found", "", nil, false)
	}

	// R5: the goroutine closures
	var closures []*ssa.Function
	for _, f := range p.Roots() {
		if p.GoRoot[f] && (f.Parent() != nil || p.GoOnly[f]) && c.Of(f).Has(EFsWObj) {
			closures = append(closures, f)
		}
	}
	if len(closures) == 0 {
		r.Report("C10.R5", "-", "flusher", Violated, "no goroutine that flushes pending writes was found", "", nil, true)
	}
	exploreAll(p, c, jobsFor(closures, []Valuation{{}}), effs(ECallFlushPend), r, func(j exploreJob) Listener {
		return &effListener{p: p, r: r, root: j.root, val: j.val, onEvent: func(l *effListener, x *Explorer, st *State, ev *Event) {
			switch ev.Kind {
			case EvLock:
				if ev.LockClass == "H" && (ev.LockOp == xUnlock || ev.LockOp == xRUnlock || ev.LockOp == xLock || ev.LockOp == xRLock) {
					st.User &^= 1 // any change of the handle lock invalidates an earlier context check
				}
			case EvEffect:
				switch ev.Eff {
				case ECtxErr:
					if st.lk.H == 2 {
						st.User |= 1
					}
				case ECallFlushPend:
					fn := FuncName(l.root)
					var miss []string
					if st.lk.H != 2 {
						miss = append(miss, "handle lock in write mode (held="+heldName(st.lk.H)+")")
					}
					if st.User&1 == 0 {
						miss = append(miss, "context re-check under the lock")
					}
					if len(miss) == 0 {
						l.ok("C10.R5", fn, "flush in critical section", l.p.Pos(ev.Instr.Pos()))
					} else {
						l.bad("C10.R5", fn, "flush in critical section", "the background flush runs without: "+strings.Join(miss, ", "), l.p.Pos(ev.Instr.Pos()), x, st, ev.Instr)
					}
				}
			}
		}}
	}, func(x *Explorer) { x.AssumeStorePresent = true })

	// R6
	for _, spec := range []struct {
		name string
		need []Eff
	}{{"DB.FlushAll", []Eff{ECallFlushPend}}, {"DB.FlushAllAndCommit", []Eff{ECallFlushPend, ECallCommit}}} {
		f := p.FuncByName(spec.name)
		if f == nil {
			r.Report("C10.R6", spec.name, "entry", Undecided, "entry not found", "", nil, false)
			continue
		}
		spec := spec
		exploreAll(p, c, jobsFor([]*ssa.Function{f}, []Valuation{{Cache: triNo, Async: triYes}}), effs(ECallFlushPend, ECallCommit), r, func(j exploreJob) Listener {
			return &effListener{p: p, r: r, root: j.root, val: j.val, onReturn: func(l *effListener, x *Explorer, st *State, ret *ssa.Return, res []Fact) {
				if miss := needMissing(st.must, spec.need...); miss == "" {
					l.ok("C10.R6", FuncName(f), "flush/commit on every return", l.p.Pos(ret.Pos()))
				} else {
					l.bad("C10.R6", FuncName(f), "flush/commit on every return", "can return without: "+miss, l.p.Pos(ret.Pos()), x, st, ret)
				}
			}}
		}, func(x *Explorer) { x.AssumeStorePresent = true })
	}
	if a := p.A; a.ObjectMap != nil {
		if fl := p.FuncByName(a.ObjectMap.Obj().Name() + ".flush"); fl != nil {
			n := exploreLoops(p, c, r, fl, func(lp natLoop, cl EffSet) bool { return cl.Has(EFsWObj) }, []Valuation{{}}, effs(ECallWriteObj, EDelPend, EDelCache, EDelUnk),
				func(lp natLoop, idx int, val Valuation) *effListener {
					l := &effListener{p: p, r: r, root: fl, val: val}
					l.onEnd = func(l *effListener, x *Explorer, st *State, reason string) {
						if reason != "backedge" {
							return
						}
						del := st.iter.Has(EDelPend) || st.iter.Has(EDelCache) || st.iter.Has(EDelUnk)
						if st.iter.Has(ECallWriteObj) && del {
							l.ok("C10.R6", FuncName(fl), "map flush iteration writes and drops", "")
						} else {
							l.bad("C10.R6", FuncName(fl), "map flush iteration writes and drops", fmt.Sprintf("an iteration of the pending-map flush lacks write=%v drop=%v", st.iter.Has(ECallWriteObj), del), "", x, st, nil)
						}
					}
					return l
				}, nil)
			if n == 0 {
				r.Report("C10.R6", FuncName(fl), "map flush loop", Violated, "the pending-map flush has no loop writing every entry", "", nil, true)
			}
		} else {
			r.Report("C10.R6", "objectMap.flush", "function", Undecided, "map-level flush not found", "", nil, false)
		}
	}

	// R7
	del := rootsByName(p, r, "DB.Delete")
	exploreAll(p, c, jobsFor(del, asyncVals), effs(ECallDelPend, ECallDelCache), r, func(j exploreJob) Listener {
		return &effListener{p: p, r: r, root: j.root, val: j.val, onReturn: func(l *effListener, x *Explorer, st *State, ret *ssa.Return, res []Fact) {
			if e, _ := errResult(l.root, res); e == triNo {
				return
			}
			if st.must.Has(ECallDelPend) {
				l.ok("C10.R7", FuncName(l.root), "pending entry dropped", l.p.Pos(ret.Pos()))
			} else {
				l.bad("C10.R7", FuncName(l.root), "pending entry dropped", "a successful delete under async leaves the pending write in place: the flusher would write the deleted object back to disk", l.p.Pos(ret.Pos()), x, st, ret)
			}
		}}
	}, nil)
}

func init() { register("C10", checkC10) }

// ---- C07 ------------------------------------------------------------------------------

func checkC07(p *Prog, r *Result, tier string) {
	r.Rule("C07.R1", "validate-all dominates insert-any: in the batch entry no reject-class source is reachable after a mutation (C06.R1 on the batch entry), every iteration of the validating loop assigns the identifier and performs all checks for its element (ITER), and both loops range over the whole, unsliced variadic parameter from its first element", 6)
	r.Rule("C07.R2", "counts: every return of the batch entry on a path without insertion reports 0; in the insert loop the count is incremented exactly once per accepted object", 2)
	r.Rule("C07.R3", "bulk: every batch call's count is added to the reported total; after a failed batch no further batch is applied; objects are consumed from the channel by a single receive and appended unconditionally in arrival order", 2)
	r.Rule("C07.R4", "the scratch index is scratch: container values stored into index structures are fresh, decoded or derived from the same structure; a scratch index is never installed in a published schema", 4)
	r.NotDecided = []string{"value level only: that the scratch index detects every intra-batch conflict is C03.R3 on a scratch receiver"}
	c := computeClosures(p)
	many := p.FuncByName("DB.InsertOrUpdateMany")
	bulk := p.FuncByName("DB.InsertOrUpdateBulk")
	if many == nil || bulk == nil {
		r.Report("ANCHOR", "-", "batch entries", Undecided, "InsertOrUpdateMany / InsertOrUpdateBulk not found", "", nil, false)
		return
	}
	r.Entries = []string{FuncName(many), FuncName(bulk)}

	// R1 (a): NEVER-AFTER on the batch entry (same listener as C06 with the rule id rewritten)
	mask := mutM.Union(okBits).Union(effs(EHookV, EHookT, ECanon))
	sub := NewResult("C07")
	exploreAll(p, c, jobsFor([]*ssa.Function{many}, configVals), mask, sub, func(j exploreJob) Listener {
		return &effListener{p: p, r: sub, root: j.root, val: j.val, onEvent: c06Event}
	}, nil)
	for _, o := range sub.Obligations() {
		if o.Rule == "C06.R1" {
			r.Report("C07.R1", o.Func, o.Construct, o.Status, o.Detail, o.Where, o.Trace, true)
		} else if o.Rule == "ENGINE" {
			r.Report("ENGINE", o.Func, o.Construct, o.Status, o.Detail, o.Where, o.Trace, false)
		}
	}
	// R1 (b): ITER
	checkValidateLoops(p, c, r, "C07.R1", effs(ECallInit, EHookT, ECanon, EOkValid, EOkSer, EOkUniqLive, EOkAcceptTemp))
	// R1 (c): structure of the loops over the variadic parameter
	checkWholeSliceLoops(p, r, "C07.R1", many)

	// R2
	checkBatchCounts(p, c, r, "C07.R2", many)

	// R3
	checkBulk(p, c, r, "C07.R3", bulk, many)

	// R4
	var jobs []exploreJob
	for _, f := range apiRoots(p) {
		if c.Of(f).Has(EIdxWLive) {
			jobs = append(jobs, exploreJob{f, Valuation{}})
		}
	}
	exploreAll(p, c, jobs, EffSet{}, r, func(j exploreJob) Listener {
		return &effListener{p: p, r: r, root: j.root, val: j.val, onEvent: func(l *effListener, x *Explorer, st *State, ev *Event) {
			a := l.p.A
			switch ev.Kind {
			case EvCall:
				// constructor of an object index: a sod function without receiver returning *objIndex
				if ev.Callee != nil && ev.Callee.Signature.Recv() == nil && ev.Callee.Signature.Results().Len() == 1 && named(ev.Callee.Signature.Results().At(0).Type()) == a.ObjIndex && st.onStack(l.p.FuncByName("DB.InsertOrUpdateMany")) {
					args := ev.Instr.(ssa.CallInstruction).Common().Args
					fn := FuncName(st.top().fn)
					if len(args) > 0 && x.tagsOf(st, args[0])&TSchemaFields != 0 {
						l.ok("C07.R4", fn, "scratch index built from the schema's descriptors", l.p.Pos(ev.Instr.Pos()))
					} else {
						l.bad("C07.R4", fn, "scratch index built from the schema's descriptors", "the per-batch scratch index is not built from Schema.Fields: constraints that exist only in the stored schema (custom schemas) are not enforced between the objects of a batch", l.p.Pos(ev.Instr.Pos()), x, st, ev.Instr)
					}
				}
			case EvIdxContainerStore:
				fn := FuncName(st.top().fn)
				name := "?"
				if ev.Struct != nil && ev.Field != nil {
					name = ev.Struct.Obj().Name() + "." + ev.Field.Name()
				}
				construct := "container store into " + name
				baseLive := ev.Tags&TLive != 0
				baseTemp := !baseLive && ev.Tags&(TFresh|TDecoded) != 0
				valLive := ev.VTags&TLive != 0
				valNew := ev.VTags&(TFresh|TDecoded) != 0
				switch {
				case baseTemp && valLive:
					l.bad("C07.R4", fn, construct, "a container of the live index is stored into a scratch/fresh index structure: the scratch index would alias live index memory", l.p.Pos(ev.Instr.Pos()), x, st, ev.Instr)
				case baseLive && !valLive && !valNew:
					l.bad("C07.R4", fn, construct, "a container of unknown provenance is stored into the live index", l.p.Pos(ev.Instr.Pos()), x, st, ev.Instr)
				default:
					l.ok("C07.R4", fn, construct, l.p.Pos(ev.Instr.Pos()))
				}
			case EvAccess:
				if ev.Write && ev.Struct == a.Schema && ev.Field == a.SchObjectIndex {
					fn := FuncName(st.top().fn)
					if ev.Tags&(TFresh|TDecoded) != 0 {
						l.ok("C07.R4", fn, "install object index", l.p.Pos(ev.Instr.Pos()))
					} else {
						l.bad("C07.R4", fn, "install object index", "the object index of a published schema is replaced", l.p.Pos(ev.Instr.Pos()), x, st, ev.Instr)
					}
				}
			}
		}}
	}, nil)
}

func init() { register("C07", checkC07) }

// checkWholeSliceLoops: loops in fn that index the variadic parameter use the bare parameter and a counter that starts at the first element.
func checkWholeSliceLoops(p *Prog, r *Result, rule string, fn *ssa.Function) {
	var param *ssa.Parameter
	for _, pr := range fn.Params {
		if _, ok := pr.Type().Underlying().(*types.Slice); ok {
			param = pr
		}
	}
	if param == nil {
		r.Report(rule, FuncName(fn), "variadic parameter", Undecided, "no slice parameter", "", nil, false)
		return
	}
	// no re-slicing of the parameter anywhere (in the function or in a helper the whole batch is handed to)
	okSlice := true
	nLoops := 0
	type visit struct {
		f *ssa.Function
		p *ssa.Parameter
	}
	work := []visit{{fn, param}}
	for _, b := range fn.Blocks {
		for _, in := range b.Instrs {
			if call, ok := in.(*ssa.Call); ok {
				if g := call.Call.StaticCallee(); g != nil && g != fn && g.Blocks != nil && inSod(p, g) {
					for i, a := range call.Call.Args {
						if a == param && i < len(g.Params) {
							work = append(work, visit{g, g.Params[i]})
						}
					}
				}
			}
		}
	}
	for _, w := range work {
		fn, param := w.f, w.p
		for _, b := range fn.Blocks {
			for _, in := range b.Instrs {
				if sl, ok := in.(*ssa.Slice); ok && sl.X == param {
					okSlice = false
					r.Report(rule, FuncName(fn), "parameter is not re-sliced", Violated, "the batch parameter is re-sliced: a loop over the sub-slice would skip elements", p.Pos(in.Pos()), nil, true)
				}
			}
		}
		for _, lp := range naturalLoops(fn) {
			// does the loop index the parameter with an induction variable?
			for _, b := range lp.blocks {
				for _, in := range b.Instrs {
					ia, ok := in.(*ssa.IndexAddr)
					if !ok || ia.X != param {
						continue
					}
					if _, isConst := ia.Index.(*ssa.Const); isConst {
						continue
					}
					nLoops++
					construct := fmt.Sprintf("loop #%d over the batch starts at element 0 and is bounded by len", nLoops)
					// index = phi(-1,...)+1 or phi(0,...)
					start, bounded := false, false
					idx := ia.Index
					if bo, ok := idx.(*ssa.BinOp); ok && bo.Op == token.ADD {
						if phi, ok := bo.X.(*ssa.Phi); ok {
							for _, e := range phi.Edges {
								if cst, ok := e.(*ssa.Const); ok && cst.Value != nil && cst.Value.String() == "-1" {
									start = true
								}
							}
						}
					} else if phi, ok := idx.(*ssa.Phi); ok {
						for _, e := range phi.Edges {
							if cst, ok := e.(*ssa.Const); ok && cst.Value != nil && cst.Value.String() == "0" {
								start = true
							}
						}
					}
					// the induction variable kept in a cell (a named result of a function with defers): every store to the
					// cell is the constant 0 or cell+1, and some load of it is compared with len(param)
					if ld, ok := idx.(*ssa.UnOp); ok && ld.Op == token.MUL {
						if cell, ok := ld.X.(*ssa.Alloc); ok && cell.Referrers() != nil {
							okStores, cmp := true, false
							for _, rf := range *cell.Referrers() {
								switch u := rf.(type) {
								case *ssa.Store:
									if u.Addr != ssa.Value(cell) {
										okStores = false
										continue
									}
									if c, ok := u.Val.(*ssa.Const); ok && c.Value != nil && c.Value.String() == "0" {
										continue
									}
									if bo, ok := u.Val.(*ssa.BinOp); ok && bo.Op == token.ADD {
										if l2, ok := bo.X.(*ssa.UnOp); ok && l2.X == ssa.Value(cell) {
											if c, ok := bo.Y.(*ssa.Const); ok && c.Value != nil && c.Value.String() == "1" {
												continue
											}
										}
									}
									okStores = false
								case *ssa.UnOp:
									if u.Referrers() == nil {
										continue
									}
									for _, r2 := range *u.Referrers() {
										if bo, ok := r2.(*ssa.BinOp); ok && bo.Op == token.LSS && bo.X == ssa.Value(u) {
											if call, ok := bo.Y.(*ssa.Call); ok {
												if bi, ok := call.Call.Value.(*ssa.Builtin); ok && bi.Name() == "len" && call.Call.Args[0] == param {
													cmp = true
												}
											}
										}
									}
								}
							}
							if okStores && cmp {
								start, bounded = true, true
							}
						}
					}
					// bound: header compares idx with len(param)
					if refs := idx.Referrers(); refs != nil {
						for _, rf := range *refs {
							if bo, ok := rf.(*ssa.BinOp); ok && bo.Op == token.LSS && bo.X == idx {
								if call, ok := bo.Y.(*ssa.Call); ok {
									if bi, ok := call.Call.Value.(*ssa.Builtin); ok && bi.Name() == "len" && call.Call.Args[0] == param {
										bounded = true
									}
								}
							}
						}
					}
					if start && bounded {
						r.Report(rule, FuncName(fn), construct, Discharged, "", p.Pos(in.Pos()), nil, true)
					} else {
						r.Report(rule, FuncName(fn), construct, Violated, fmt.Sprintf("loop over the batch does not cover the whole parameter (starts at first element: %v, bounded by len(parameter): %v)", start, bounded), p.Pos(in.Pos()), nil, true)
					}
				}
			}
		}
	}
	if okSlice {
		r.Report(rule, FuncName(fn), "parameter is not re-sliced", Discharged, "", "", nil, true)
	}
	if nLoops < 2 {
		r.Report(rule, FuncName(fn), "two loops over the batch", Violated, fmt.Sprintf("expected a validating loop and an inserting loop over the batch, found %d", nLoops), "", nil, true)
	} else {
		r.Report(rule, FuncName(fn), "two loops over the batch", Discharged, "", "", nil, true)
	}
}

func checkBatchCounts(p *Prog, c *Closures, r *Result, rule string, many *ssa.Function) {
	cntName := many.Signature.Results().At(0).Name()
	mask := mutIns.Union(effs(EOkAccept))
	// (a) zero on paths without insertion
	exploreAll(p, c, jobsFor([]*ssa.Function{many}, configVals), mask, r, func(j exploreJob) Listener {
		return &effListener{p: p, r: r, root: j.root, val: j.val, onReturn: func(l *effListener, x *Explorer, st *State, ret *ssa.Return, res []Fact) {
			if st.may.Intersects(mutIns) {
				return
			}
			if len(res) > 0 && res[0].Zero {
				l.ok(rule, FuncName(many), "count is 0 when nothing was inserted", l.p.Pos(ret.Pos()))
			} else {
				l.bad(rule, FuncName(many), "count is 0 when nothing was inserted", "the batch entry can return a count that is not the constant 0 on a path where nothing was inserted", l.p.Pos(ret.Pos()), x, st, ret)
			}
		}}
	}, nil)
	// (b) exactly one increment per accepted object
	n := exploreLoops(p, c, r, many, func(lp natLoop, cl EffSet) bool { return cl.Has(EIdxWLive) && !cl.Has(EHookV) }, []Valuation{{Cache: triNo, Async: triNo}, {Cache: triYes, Async: triYes}}, mask,
		func(lp natLoop, idx int, val Valuation) *effListener {
			l := &effListener{p: p, r: r, root: many, val: val}
			l.onEvent = func(l *effListener, x *Explorer, st *State, ev *Event) {
				if ev.Kind == EvStoreResult && st.trackIter {
					if sto, ok := ev.Instr.(*ssa.Store); ok {
						if al, ok := sto.Addr.(*ssa.Alloc); ok && al.Comment == cntName {
							// saturating 2-bit counter of stores to the count in this iteration
							cnt := st.User & 3
							if cnt < 3 {
								cnt++
							}
							st.User = st.User&^3 | cnt
						}
					}
				}
			}
			l.onEnd = func(l *effListener, x *Explorer, st *State, reason string) {
				if reason != "backedge" {
					return
				}
				if st.User&3 == 1 && st.iter.Has(EOkAccept) {
					l.ok(rule, FuncName(many), "one count increment per accepted object", "")
				} else {
					l.bad(rule, FuncName(many), "one count increment per accepted object", fmt.Sprintf("an iteration of the insert loop continues with %d stores to the count (accepted=%v)", st.User&3, st.iter.Has(EOkAccept)), "", x, st, nil)
				}
			}
			return l
		}, func(x *Explorer) {})
	if n == 0 {
		r.Report(rule, FuncName(many), "insert loop", Violated, "no insert loop found", "", nil, true)
	}
	// the increment is +1
	okInc := false
	for _, b := range many.Blocks {
		for _, in := range b.Instrs {
			if sto, ok := in.(*ssa.Store); ok {
				if al, ok := sto.Addr.(*ssa.Alloc); ok && al.Comment == cntName {
					if bo, ok := sto.Val.(*ssa.BinOp); ok && bo.Op == token.ADD {
						if cst, ok := bo.Y.(*ssa.Const); ok && cst.Value != nil && cst.Value.String() == "1" {
							okInc = true
							continue
						}
					}
					r.Report(rule, FuncName(many), "count only changes by +1", Violated, "the count is assigned something other than count+1", p.Pos(in.Pos()), nil, true)
					okInc = false
				}
			}
		}
	}
	if okInc {
		r.Report(rule, FuncName(many), "count only changes by +1", Discharged, "", "", nil, true)
	}
}

func checkBulk(p *Prog, c *Closures, r *Result, rule string, bulk, many *ssa.Function) {
	fn := FuncName(bulk)
	// (i) after a failed batch no further batch
	errName := ""
	for i := 0; i < bulk.Signature.Results().Len(); i++ {
		if isErrorType(bulk.Signature.Results().At(i).Type()) {
			errName = bulk.Signature.Results().At(i).Name()
		}
	}
	exploreAll(p, c, []exploreJob{{bulk, Valuation{Cache: triNo, Async: triNo}}}, EffSet{}, r, func(j exploreJob) Listener {
		return &effListener{p: p, r: r, root: j.root, val: j.val, onEvent: func(l *effListener, x *Explorer, st *State, ev *Event) {
			if ev.Kind != EvCall || ev.Callee != many {
				return
			}
			// called by the chunked entry itself or by a closure of it
			for _, fr := range st.frames[1:] {
				if fr.fn.Parent() != bulk {
					return
				}
			}
			// state of the error variable when the batch entry is called
			var errFact Fact
			found := false
			for k, s := range st.cells {
				if al, ok := k.v.(*ssa.Alloc); ok && k.d == 0 && al.Comment == errName {
					errFact = st.facts[s]
					found = true
				}
			}
			if !found || errFact.Nil == triYes {
				l.ok(rule, fn, "no batch after a failed batch", l.p.Pos(ev.Instr.Pos()))
			} else {
				l.bad(rule, fn, "no batch after a failed batch", "a batch is applied on a path where the previous batch's error is not known to be nil (failed or unchecked)", l.p.Pos(ev.Instr.Pos()), x, st, ev.Instr)
			}
		}}
	}, func(x *Explorer) {
		x.Opaque = x.Opaque.Union(EffSet{^uint64(0), ^uint64(0)}) // do not descend into the batch entry
	})
	// (ii) every batch call's count flows into the total
	nCalls := 0
	// the batch entry may be called from a local closure of the chunked entry: its call sites count
	scope := append([]*ssa.Function{bulk}, bulk.AnonFuncs...)
	closureSites := map[*ssa.Function]int{}
	for _, b := range bulk.Blocks {
		for _, in := range b.Instrs {
			ci, ok := in.(ssa.CallInstruction)
			if !ok {
				continue
			}
			// a call through a local variable holding the closure
			for _, an := range bulk.AnonFuncs {
				if calleeIsClosure(ci.Common().Value, an) {
					closureSites[an]++
				}
			}
		}
	}
	for _, sf := range scope {
		for _, b := range sf.Blocks {
			for _, in := range b.Instrs {
				call, ok := in.(*ssa.Call)
				if !ok || call.Call.StaticCallee() != many {
					continue
				}
				nCalls++
				if sf != bulk && closureSites[sf] > 1 {
					nCalls += closureSites[sf] - 1
				}
				added := false
				if refs := call.Referrers(); refs != nil {
					for _, rf := range *refs {
						if ex, ok := rf.(*ssa.Extract); ok && ex.Index == 0 {
							// extract -> (store to local) -> load -> ADD with total -> store to total
							added = flowsIntoAdd(ex, 0)
						}
					}
				}
				construct := fmt.Sprintf("batch call #%d count is added to the total", nCalls)
				if added {
					r.Report(rule, fn, construct, Discharged, "", p.Pos(in.Pos()), nil, true)
				} else {
					r.Report(rule, fn, construct, Violated, "the count returned by a batch call does not flow into an addition (the reported total would miss it)", p.Pos(in.Pos()), nil, true)
				}
			}
		}
	}
	if nCalls < 2 {
		r.Report(rule, fn, "batch calls", Violated, fmt.Sprintf("expected an in-loop and a final batch call, found %d", nCalls), "", nil, true)
	}
	// (iii) single receive, unconditional append in the same block
	recvs := 0
	okAppend := false
	for _, b := range bulk.Blocks {
		for _, in := range b.Instrs {
			if u, ok := in.(*ssa.UnOp); ok && u.Op == token.ARROW {
				recvs++
				// the received value must reach an append on every path to the next receive: same loop body block chain
				okAppend = recvFlowsToAppend(u)
			}
			if _, ok := in.(*ssa.Select); ok {
				recvs += 2
			}
		}
	}
	if recvs == 1 && okAppend {
		r.Report(rule, fn, "single receive appended in arrival order", Discharged, "", "", nil, true)
	} else {
		r.Report(rule, fn, "single receive appended in arrival order", Violated, fmt.Sprintf("expected exactly one channel receive whose value is appended to the chunk (receives=%d, appended=%v)", recvs, okAppend), "", nil, true)
	}
}

func flowsIntoAdd(v ssa.Value, depth int) bool {
	if depth > 6 {
		return false
	}
	refs := v.Referrers()
	if refs == nil {
		return false
	}
	for _, rf := range *refs {
		switch u := rf.(type) {
		case *ssa.BinOp:
			if u.Op == token.ADD {
				return true
			}
		case *ssa.Store:
			// stored to a local: follow the loads of that local
			if al, ok := u.Addr.(*ssa.Alloc); ok {
				if ar := al.Referrers(); ar != nil {
					for _, r2 := range *ar {
						if ld, ok := r2.(*ssa.UnOp); ok && ld.Op == token.MUL {
							if flowsIntoAdd(ld, depth+1) {
								return true
							}
						}
					}
				}
			}
		case *ssa.Phi:
			if flowsIntoAdd(u, depth+1) {
				return true
			}
		}
	}
	return false
}

func recvFlowsToAppend(u *ssa.UnOp) bool {
	var vals []ssa.Value
	if u.CommaOk {
		if refs := u.Referrers(); refs != nil {
			for _, rf := range *refs {
				if ex, ok := rf.(*ssa.Extract); ok && ex.Index == 0 {
					vals = append(vals, ex)
				}
			}
		}
	} else {
		vals = []ssa.Value{u}
	}
	var follow func(v ssa.Value, depth int) bool
	follow = func(v ssa.Value, depth int) bool {
		if depth > 6 {
			return false
		}
		refs := v.Referrers()
		if refs == nil {
			return false
		}
		for _, rf := range *refs {
			switch x := rf.(type) {
			case *ssa.Store:
				if al, ok := x.Addr.(*ssa.Alloc); ok {
					if ar := al.Referrers(); ar != nil {
						for _, r2 := range *ar {
							if ld, ok := r2.(*ssa.UnOp); ok && ld.Op == token.MUL && follow(ld, depth+1) {
								return true
							}
						}
					}
				}
				if _, ok := x.Addr.(*ssa.IndexAddr); ok {
					// varargs array element of append(chunk, o)
					if follow(x.Addr.(*ssa.IndexAddr).X, depth+1) {
						return true
					}
				}
			case *ssa.Slice:
				if follow(x, depth+1) {
					return true
				}
			case *ssa.Call:
				if bi, ok := x.Call.Value.(*ssa.Builtin); ok && bi.Name() == "append" {
					return true
				}
			case *ssa.Phi:
				if follow(x, depth+1) {
					return true
				}
			}
		}
		return false
	}
	for _, v := range vals {
		if follow(v, 0) {
			return true
		}
	}
	return false
}

// checkCachePredicates: truth tables of mustCache / asyncWritesEnabled by finite evaluation.
func checkCachePredicates(p *Prog, r *Result, rule string) {
	a := p.A
	for _, spec := range []struct {
		fn   *types.Func
		want func(cache bool, aw int) bool // aw: 0 nil, 1 enabled, 2 disabled
		text string
	}{
		{a.MustCache, func(c bool, aw int) bool { return c || aw == 1 }, "Cache || (AsyncWrites != nil && Enable)"},
		{a.AsyncEnabled, func(c bool, aw int) bool { return aw == 1 }, "AsyncWrites != nil && Enable"},
	} {
		if spec.fn == nil {
			continue
		}
		fn := p.SSA.FuncValue(spec.fn)
		cells, bad := 0, []string{}
		for _, cache := range []bool{false, true} {
			for aw := 0; aw < 3; aw++ {
				fields := map[string]AV{a.SchCache.Name(): avB(cache)}
				switch aw {
				case 0:
					fields[a.SchAsync.Name()] = AV{K: avNil}
				default:
					fields[a.SchAsync.Name()] = AV{K: avPtr, Obj: newAObj(a.Async, map[string]AV{"Enable": avB(aw == 1)})}
				}
				env := &EvalEnv{P: p}
				res, out := env.Eval(fn, []AV{{K: avPtr, Obj: newAObj(a.Schema, fields)}}, 0)
				cells++
				desc := fmt.Sprintf("cache=%v async=%s", cache, []string{"nil", "enabled", "disabled"}[aw])
				if out != "return" || len(res) != 1 || res[0].K != avBool {
					r.Report(rule, FuncName(fn), "truth table", Undecided, "finite evaluation failed at "+desc+": "+out+" "+env.Why, p.Pos(fn.Pos()), nil, true)
					bad = append(bad, desc)
					continue
				}
				if res[0].B != spec.want(cache, aw) {
					bad = append(bad, fmt.Sprintf("%s -> %v", desc, res[0].B))
				}
			}
		}
		if len(bad) == 0 {
			r.Report(rule, FuncName(fn), "truth table", Discharged, fmt.Sprintf("%d cells equal %s", cells, spec.text), p.Pos(fn.Pos()), nil, true)
		} else {
			r.Report(rule, FuncName(fn), "truth table", Violated, "predicate differs from "+spec.text+" at: "+strings.Join(bad, "; "), p.Pos(fn.Pos()), nil, true)
		}
		r.Evaluations += cells
	}
}

func c0(p *Prog) *Closures { return computeClosures(p) }

// checkSettingsOwned: provenance of what is stored into Schema.AsyncWrites on the paths of Create and of the loader.
func checkSettingsOwned(p *Prog, c *Closures, r *Result, rule string) {
	a := p.A
	var roots []*ssa.Function
	for _, n := range []string{"DB.Create", "DB.Schema"} {
		if f := p.FuncByName(n); f != nil {
			roots = append(roots, f)
		}
	}
	if len(roots) == 0 {
		r.Report(rule, "-", "entries", Undecided, "Create / Schema entries not found", "", nil, false)
		return
	}
	exploreAll(p, c, jobsFor(roots, []Valuation{{FileExists: triYes}, {FileExists: triNo}}), effs(EOkSchema), r, func(j exploreJob) Listener {
		return &effListener{p: p, r: r, root: j.root, val: j.val, onEvent: func(l *effListener, x *Explorer, st *State, ev *Event) {
			if ev.Kind != EvAccess || !ev.Write || ev.Struct != a.Schema || ev.Field != a.SchAsync {
				return
			}
			if _, ok := ev.Instr.(*ssa.Store); !ok {
				return
			}
			fn := FuncName(st.top().fn)
			if ev.VNil == triYes || ev.VTags&(TFresh|TDecoded) != 0 {
				l.ok(rule, fn, "settings pointer stored in a schema is the package's own", l.p.Pos(ev.Instr.Pos()))
			} else {
				l.bad(rule, fn, "settings pointer stored in a schema is the package's own", "a schema keeps a settings pointer that was not allocated by the package in this call: when the caller uses one Schema value for several collections they share the object holding the 'flusher started' flag, and only the first collection gets a flusher (the pending writes of the others wait for Close)", l.p.Pos(ev.Instr.Pos()), x, st, ev.Instr)
			}
		}}
	}, nil)
}

// calleeIsClosure: the called value is (a local holding) the closure made from fn.
func calleeIsClosure(v ssa.Value, fn *ssa.Function) bool {
	seen := map[ssa.Value]bool{}
	var walk func(v ssa.Value) bool
	walk = func(v ssa.Value) bool {
		if v == nil || seen[v] {
			return false
		}
		seen[v] = true
		switch x := v.(type) {
		case *ssa.MakeClosure:
			return x.Fn == ssa.Value(fn)
		case *ssa.Function:
			return x == fn
		case *ssa.Phi:
			for _, e := range x.Edges {
				if walk(e) {
					return true
				}
			}
		case *ssa.UnOp:
			// load of a local cell holding the closure
			if al, ok := x.X.(*ssa.Alloc); ok && al.Referrers() != nil {
				for _, rf := range *al.Referrers() {
					if st, ok := rf.(*ssa.Store); ok && st.Addr == ssa.Value(al) && walk(st.Val) {
						return true
					}
				}
			}
		}
		return false
	}
	return walk(v)
}

// checkSettingsCopyReset: whole-value copies of the async settings made during schema initialisation reset the
// unexported started-flag.
func checkSettingsCopyReset(p *Prog, r *Result, rule string) {
	a := p.A
	init := p.FuncByName("Schema.initialize")
	if init == nil || a.Async == nil {
		r.Report(rule, "Schema.initialize", "function", Undecided, "schema initialisation or settings type not found", "", nil, false)
		return
	}
	st := structOf(a.Async)
	var flags []*types.Var
	for i := 0; i < st.NumFields(); i++ {
		if f := st.Field(i); !f.Exported() {
			if b, ok := f.Type().Underlying().(*types.Basic); ok && b.Info()&types.IsBoolean != 0 {
				flags = append(flags, f)
			}
		}
	}
	if len(flags) == 0 {
		r.Report(rule, "-", "no unexported flag in the settings type", Discharged, "the settings type carries no private boolean state: nothing to reset", "", nil, false)
		return
	}
	n := 0
	for _, fn := range calleesWithin(p, init, 2) {
		if !inSod(p, fn) {
			continue
		}
		for _, b := range fn.Blocks {
			for _, in := range b.Instrs {
				cp, ok := in.(*ssa.Store)
				if !ok {
					continue
				}
				al, ok := cp.Addr.(*ssa.Alloc)
				if !ok || named(al.Type().Underlying().(*types.Pointer).Elem()) != a.Async {
					continue
				}
				ld, ok := cp.Val.(*ssa.UnOp)
				if !ok || ld.Op != token.MUL {
					continue
				}
				// a whole settings value is copied into the local object: every flag has to be reset on it afterwards
				n++
				missing := ""
				for _, flag := range flags {
					reset := false
					if al.Referrers() != nil {
						for _, rf := range *al.Referrers() {
							fa, ok := rf.(*ssa.FieldAddr)
							if !ok || fa.Referrers() == nil {
								continue
							}
							if _, f, _ := fieldOf(fa); f != flag {
								continue
							}
							for _, rr := range *fa.Referrers() {
								if s2, ok := rr.(*ssa.Store); ok && s2.Addr == ssa.Value(fa) {
									if c, ok := s2.Val.(*ssa.Const); ok && c.Value != nil && c.Value.String() == "false" && (s2.Block() != cp.Block() || indexIn(s2) > indexIn(cp)) {
										reset = true
									}
								}
							}
						}
					}
					if !reset {
						missing = flag.Name()
					}
				}
				if missing == "" {
					r.Report(rule, FuncName(fn), "copied settings start with the flag reset", Discharged, "", p.Pos(in.Pos()), nil, true)
				} else {
					r.Report(rule, FuncName(fn), "copied settings start with the flag reset", Violated, "the schema initialisation copies a whole settings value and keeps its private flag `"+missing+"`: settings taken from a live schema (db.Schema()) already say that a flusher runs, so no flusher is ever started for the schema that receives the copy and its accepted writes stay pending until Close", p.Pos(in.Pos()), nil, true)
				}
			}
		}
	}
	if n == 0 {
		r.Report(rule, FuncName(init), "no whole-value copy of settings", Discharged, "the initialisation does not copy a settings value as a whole (ownership is C10.R9)", p.Pos(init.Pos()), nil, false)
	}
}

func indexIn(in ssa.Instruction) int {
	for i, x := range in.Block().Instrs {
		if x == in {
			return i
		}
	}
	return -1
}
