package main

// Path engine: bounded abstract path enumeration over go/ssa with virtual
// inlining. It never executes sod code; it walks SSA control-flow graphs,
// carrying an abstract state (effect sets, lock state, nil/bool facts and
// provenance tags of SSA values) and reports events to rule listeners.

import (
	"fmt"
	"go/token"
	"go/types"
	"hash/fnv"
	"sort"
	"strings"

	"golang.org/x/tools/go/ssa"
)

type Sym struct {
	d, i int32
	v    ssa.Value
}

type tri int8

const (
	triUnk tri = iota
	triYes     // nil / true
	triNo      // non-nil / false
)

type Fact struct {
	Nil    tri
	Bool   tri
	Zero   bool // integer known to be 0 (loop counters entering a loop)
	Neg1   bool // integer known to be -1 (go/ssa range loops start their counter at -1)
	Tags   Tag
	OkNil  EffSet // effects gained when this (error) value is proven nil
	OkTrue EffSet // effects gained when this bool is proven true
}

type memoKey struct {
	base Sym
	fld  *types.Var
}

type vkey struct {
	d int32
	v ssa.Value
}

type Frame struct {
	fn         *ssa.Function
	blk, prev  *ssa.BasicBlock
	pc         int
	site       ssa.CallInstruction // call site in the caller (nil for root)
	deferred   bool                // frame runs a deferred call: results are discarded
	defers     []*ssa.Defer
	runq       []*ssa.Defer // defers still to run for the current rundefers
	inRunq     bool
	mustAtCall EffSet
	seen       EffSet // read/decode effects that happened during this frame (incl. callees)
}

type LockState struct {
	H      int8 // handle lock: 0 none, 1 R, 2 W
	HDepth int8
	S, M   int8    // store / map lock depth
	SW, MW bool    // held in write mode
	Si, Mi [3]int8 // depth per instance: 0 cache store, 1 pending store, 2 unknown
	T      int8    // any other package mutex (e.g. a schema-table mutex)
}

type State struct {
	frames    []Frame
	env       map[vkey]Sym
	cells     map[vkey]Sym
	facts     map[Sym]Fact
	must      EffSet
	may       EffSet
	stale     EffSet // success facts established before the handle lock was last released (and not re-established since)
	lk        LockState
	iter      EffSet          // effects since the last loop-iteration mark (ITER queries)
	lenpos    map[vkey]tri    // is len(param) > 0 ? (correlates loops over the same slice)
	memo      map[memoKey]Sym // value last loaded from (object, field): repeated loads of a field see the same abstract value
	User      uint64          // scratch bits owned by the rule listener (part of the state identity)
	steps     int
	mask      EffSet
	trackIter bool
	iterDepth int // frame depth of the tracked loop
}

type Valuation struct {
	Cache, Async tri // triUnk: explore both
	FileExists   tri // result of the isFileAndExist predicate
	IsCorrupted  tri // result of errors.Is(err, ErrIndexCorrupted)
}

func (v Valuation) String() string {
	f := func(t tri) string {
		switch t {
		case triYes:
			return "on"
		case triNo:
			return "off"
		}
		return "*"
	}
	s := "cache=" + f(v.Cache) + ",async=" + f(v.Async)
	if v.FileExists != triUnk {
		s += ",fileExists=" + f(v.FileExists)
	}
	if v.IsCorrupted != triUnk {
		s += ",isCorrupted=" + f(v.IsCorrupted)
	}
	return s
}

type EvKind int

const (
	EvEffect EvKind = iota
	EvLock
	EvAccess
	EvCall    // before inlining / applying a call (static callee known)
	EvCallRet // after an inlined call returned
	EvIdxContainerStore
	EvStoreResult // store to a named result variable
	EvAliasWrite  // append to / element store through a slice value (Tags = provenance of the slice)
)

type Event struct {
	Kind    EvKind
	Eff     Eff
	Instr   ssa.Instruction
	Tags    Tag // subject tags (base object / path)
	VTags   Tag // tags of the stored value, if any
	Callee  *ssa.Function
	Results []Fact // EvCallRet: facts of the returned values
	VFact   Fact   // EvStoreResult: fact of the stored value
	// lock events
	LockClass string // "H","S","M","T"
	LockInst  int    // for S / M: 0 cache store, 1 pending store, 2 unknown
	LockOp    extKind
	// access events
	Struct  *types.Named
	Field   *types.Var
	Write   bool
	BaseNil tri // nil-ness of the pointer the field was reached through
	VNil    tri // nil-ness of the stored value (writes)
}

type Listener interface {
	Event(x *Explorer, st *State, ev *Event)
	Return(x *Explorer, st *State, ret *ssa.Return, results []Fact)
	End(x *Explorer, st *State, reason string)
}

type Explorer struct {
	P                  *Prog
	C                  *Closures
	Root               *ssa.Function
	Val                Valuation
	L                  Listener
	MaxDepth           int
	MaxStates          int
	AssumeTblStable    bool // after a successful schema acquisition, table lookups hit
	AssumeStorePresent bool // comma-ok lookups of a per-type map in an object store succeed (rules about "what is pending gets flushed")
	Trace              string
	InitFree           map[int]Fact // closure roots: facts about the captured variables at the spawn site(s); key = free variable index
	InitFreeIsCell     map[int]bool // the free variable is the address of a captured variable (fact describes its content)
	InitParam          map[int]Fact // named goroutine roots: facts about the parameters (receiver first) at the spawn site(s)
	Mask               EffSet       // effects tracked in must/may (others are reported as events but not remembered)
	Opaque             EffSet       // a callee whose closure is within this set is not inlined

	// loop-body mode
	LoopFn     *ssa.Function
	LoopHeader *ssa.BasicBlock
	LoopBlocks map[*ssa.BasicBlock]bool

	visited map[uint64]struct{}
	ids     map[ssa.Value]int
	fnids   map[*ssa.Function]int
	fldids  map[*types.Var]int
	live    map[*ssa.Function]*liveInfo
	hbuf    []byte
	ebuf    []struct {
		a, b, c int
		s       Sym
	}
	States    int
	Stat      map[string]int
	Paths     int
	Undecided []string
	work      []*State
}

type liveInfo struct {
	in map[ssa.Value][]uint64 // per value: blocks where it is live-in
}

func NewExplorer(p *Prog, c *Closures, root *ssa.Function, val Valuation, l Listener) *Explorer {
	all := EffSet{^uint64(0), ^uint64(0)}
	return &Explorer{P: p, C: c, Root: root, Val: val, L: l, MaxDepth: 24, MaxStates: 400000, AssumeTblStable: true, Mask: all, Opaque: effs(EPanic),
		visited: map[uint64]struct{}{}, ids: map[ssa.Value]int{}, fnids: map[*ssa.Function]int{}, live: map[*ssa.Function]*liveInfo{}}
}

func (x *Explorer) undecided(format string, a ...interface{}) {
	s := fmt.Sprintf(format, a...)
	for _, u := range x.Undecided {
		if u == s {
			return
		}
	}
	x.Undecided = append(x.Undecided, s)
}

// ---- state helpers -----------------------------------------------------------

func (st *State) depth() int32 { return int32(len(st.frames) - 1) }
func (st *State) top() *Frame  { return &st.frames[len(st.frames)-1] }

func (st *State) clone() *State {
	n := &State{must: st.must, may: st.may, stale: st.stale, lk: st.lk, iter: st.iter, steps: st.steps, mask: st.mask, trackIter: st.trackIter, iterDepth: st.iterDepth, User: st.User}
	n.frames = make([]Frame, len(st.frames))
	copy(n.frames, st.frames)
	for i := range n.frames {
		if len(n.frames[i].defers) > 0 {
			n.frames[i].defers = append([]*ssa.Defer(nil), n.frames[i].defers...)
		}
		if len(n.frames[i].runq) > 0 {
			n.frames[i].runq = append([]*ssa.Defer(nil), n.frames[i].runq...)
		}
	}
	n.env = make(map[vkey]Sym, len(st.env))
	for k, v := range st.env {
		n.env[k] = v
	}
	n.cells = make(map[vkey]Sym, len(st.cells))
	for k, v := range st.cells {
		n.cells[k] = v
	}
	n.facts = make(map[Sym]Fact, len(st.facts))
	for k, v := range st.facts {
		n.facts[k] = v
	}
	if len(st.lenpos) > 0 {
		n.lenpos = make(map[vkey]tri, len(st.lenpos))
		for k, v := range st.lenpos {
			n.lenpos[k] = v
		}
	}
	if len(st.memo) > 0 {
		n.memo = make(map[memoKey]Sym, len(st.memo))
		for k, v := range st.memo {
			n.memo[k] = v
		}
	}
	return n
}

var seenBits = effs(EFsRObj, EJsonDec)

func (st *State) add(e Eff) {
	if seenBits.Has(e) {
		st.frames[len(st.frames)-1].seen = st.frames[len(st.frames)-1].seen.With(e)
	}
	switch e {
	case EIdxWLive, ECfgW:
		if st.mask.Has(EDirty) {
			st.must = st.must.With(EDirty)
			st.may = st.may.With(EDirty)
		}
	case EFsWSchema:
		st.must = st.must.Minus(effs(EDirty))
		st.may = st.may.Minus(effs(EDirty))
	case EFsRename:
		st.must = st.must.Minus(effs(EUnrenamed))
		st.may = st.may.Minus(effs(EUnrenamed))
	}
	if (e == EFsWSchema || e == EFsWObj) && st.mask.Has(EUnrenamed) {
		st.must = st.must.With(EUnrenamed)
		st.may = st.may.With(EUnrenamed)
	}
	if !st.mask.Has(e) {
		return
	}
	st.stale = st.stale.Minus(effs(e))
	st.must = st.must.With(e)
	st.may = st.may.With(e)
	if st.trackIter {
		st.iter = st.iter.With(e)
	}
}

func (st *State) addSet(s EffSet) {
	s = s.Inter(st.mask)
	st.must = st.must.Union(s)
	st.may = st.may.Union(s)
	st.stale = st.stale.Minus(s)
	if st.trackIter {
		st.iter = st.iter.Union(s)
	}
}

// symOf returns the symbol currently bound to v in the top frame (creating one).
func (st *State) symOf(v ssa.Value) Sym {
	d := st.depth()
	if s, ok := st.env[vkey{d, v}]; ok {
		return s
	}
	s := Sym{d: d, v: v}
	return s
}

func (st *State) factOf(v ssa.Value) Fact {
	switch c := v.(type) {
	case *ssa.Const:
		f := Fact{}
		if c.Value == nil {
			if isPointerLike(c.Type()) {
				f.Nil = triYes
			}
		} else if b, ok := c.Type().Underlying().(*types.Basic); ok && b.Info()&types.IsBoolean != 0 {
			if c.Value.String() == "true" {
				f.Bool = triYes
			} else {
				f.Bool = triNo
			}
		} else if b, ok := c.Type().Underlying().(*types.Basic); ok && b.Info()&types.IsInteger != 0 {
			switch c.Value.String() {
			case "0":
				f.Zero = true
			case "-1":
				f.Neg1 = true
			}
		}
		return f
	case *ssa.Global:
		return Fact{Nil: triNo}
	case *ssa.Function:
		return Fact{Nil: triNo}
	}
	return st.facts[st.symOf(v)]
}

// define binds v (in the top frame) to a fresh symbol with fact f.
func (st *State) define(v ssa.Value, f Fact) Sym {
	s := Sym{d: st.depth(), v: v}
	st.env[vkey{s.d, v}] = s
	st.facts[s] = f
	return s
}

// alias binds v to an existing symbol.
func (st *State) alias(v ssa.Value, s Sym) {
	st.env[vkey{st.depth(), v}] = s
}

func (st *State) setFact(s Sym, f Fact) { st.facts[s] = f }

// ---- liveness ----------------------------------------------------------------

func (x *Explorer) liveOf(fn *ssa.Function) *liveInfo {
	if li, ok := x.live[fn]; ok {
		return li
	}
	n := len(fn.Blocks)
	w := (n + 63) / 64
	li := &liveInfo{in: map[ssa.Value][]uint64{}}
	// backward propagation per value: v is live-in at B if used in B (before any redefinition, SSA: defs are unique)
	// or live-out of B and not defined in B. Phi operands are uses at the end of the predecessor.
	defBlock := map[ssa.Value]*ssa.BasicBlock{}
	for _, b := range fn.Blocks {
		for _, in := range b.Instrs {
			if v, ok := in.(ssa.Value); ok {
				defBlock[v] = b
			}
		}
	}
	var mark func(v ssa.Value, b *ssa.BasicBlock)
	mark = func(v ssa.Value, b *ssa.BasicBlock) {
		// v is live-in at b
		if defBlock[v] == b {
			if _, isPhi := v.(*ssa.Phi); !isPhi {
				return // defined here: not live-in
			}
			// a phi is defined at block entry: live "at entry" only in the sense of after phis; treat as defined
			return
		}
		bits := li.in[v]
		if bits == nil {
			bits = make([]uint64, w)
			li.in[v] = bits
		}
		if bits[b.Index/64]&(1<<(uint(b.Index)%64)) != 0 {
			return
		}
		bits[b.Index/64] |= 1 << (uint(b.Index) % 64)
		for _, p := range b.Preds {
			markOut(v, p, defBlock, mark)
		}
	}
	for _, b := range fn.Blocks {
		for _, in := range b.Instrs {
			if phi, ok := in.(*ssa.Phi); ok {
				for i, e := range phi.Edges {
					if e != nil && i < len(b.Preds) {
						markOut(e, b.Preds[i], defBlock, mark)
					}
				}
				continue
			}
			var ops []*ssa.Value
			ops = in.Operands(ops)
			for _, op := range ops {
				if *op != nil {
					mark(*op, b)
				}
			}
		}
	}
	// operands of a defer are used when the deferred call runs (at rundefers): keep them alive everywhere
	for _, b := range fn.Blocks {
		for _, in := range b.Instrs {
			if df, ok := in.(*ssa.Defer); ok {
				var ops []*ssa.Value
				ops = df.Operands(ops)
				for _, op := range ops {
					if *op != nil {
						for _, bb := range fn.Blocks {
							mark(*op, bb)
						}
					}
				}
			}
		}
	}
	if fn.Recover != nil {
		// named results loaded in the recover block: keep their allocs alive everywhere
		for _, in := range fn.Recover.Instrs {
			var ops []*ssa.Value
			ops = in.Operands(ops)
			for _, op := range ops {
				if *op != nil {
					for _, b := range fn.Blocks {
						mark(*op, b)
					}
				}
			}
		}
	}
	x.live[fn] = li
	return li
}

// markOut: v is live-out of p.
func markOut(v ssa.Value, p *ssa.BasicBlock, defBlock map[ssa.Value]*ssa.BasicBlock, mark func(ssa.Value, *ssa.BasicBlock)) {
	if defBlock[v] == p {
		return // defined in p: live-out but not live-in
	}
	mark(v, p)
}

// liveAt: is v needed when control is at the entry of b (after its phis)? Values defined in b are
// (re)defined later, so only live-in values and b's own phis count.
func (li *liveInfo) liveAt(v ssa.Value, b *ssa.BasicBlock) bool {
	if phi, ok := v.(*ssa.Phi); ok && phi.Block() == b {
		return true
	}
	bits := li.in[v]
	if bits == nil {
		return false
	}
	return bits[b.Index/64]&(1<<(uint(b.Index)%64)) != 0
}

// prune drops bindings of the top frame that no later instruction can use, then unreferenced facts.
func (x *Explorer) prune(st *State) {
	fr := st.top()
	li := x.liveOf(fr.fn)
	d := st.depth()
	for k := range st.env {
		if k.d == d && !li.liveAt(k.v, fr.blk) {
			delete(st.env, k)
		}
		if k.d > d {
			delete(st.env, k)
		}
	}
	for k := range st.cells {
		if k.d == d && !li.liveAt(k.v, fr.blk) {
			delete(st.cells, k)
		}
		if k.d > d {
			delete(st.cells, k)
		}
	}
	if len(st.memo) > 0 {
		live := map[Sym]bool{}
		for _, s := range st.env {
			live[s] = true
		}
		for _, s := range st.cells {
			live[s] = true
		}
		for k := range st.memo {
			if !live[k.base] {
				delete(st.memo, k)
			}
		}
	}
	if len(st.facts) > 4*(len(st.env)+len(st.cells)+len(st.memo))+64 {
		ref := map[vkey]bool{}
		for _, s := range st.env {
			ref[vkey{s.d, s.v}] = true
		}
		for _, s := range st.cells {
			ref[vkey{s.d, s.v}] = true
		}
		for _, s := range st.memo {
			ref[vkey{s.d, s.v}] = true
		}
		for s := range st.facts {
			if !ref[vkey{s.d, s.v}] {
				delete(st.facts, s)
			}
		}
	}
}

// ---- hashing -------------------------------------------------------------------

func (x *Explorer) vid(v ssa.Value) int {
	if v == nil {
		return 0
	}
	if id, ok := x.ids[v]; ok {
		return id
	}
	id := len(x.ids) + 1
	x.ids[v] = id
	return id
}

func (x *Explorer) fldid(f *types.Var) int {
	if x.fldids == nil {
		x.fldids = map[*types.Var]int{}
	}
	if id, ok := x.fldids[f]; ok {
		return id
	}
	id := len(x.fldids) + 1
	x.fldids[f] = id
	return id
}

func (x *Explorer) fid(f *ssa.Function) int {
	if id, ok := x.fnids[f]; ok {
		return id
	}
	id := len(x.fnids) + 1
	x.fnids[f] = id
	return id
}

func putInt(b []byte, vs ...int) []byte {
	for _, v := range vs {
		u := uint64(int64(v))
		b = append(b, byte(u), byte(u>>8), byte(u>>16), byte(u>>24), byte(u>>32), byte(u>>40))
	}
	return b
}

func (x *Explorer) hash(st *State) uint64 {
	buf := x.hbuf[:0]
	for _, fr := range st.frames {
		site := 0
		if fr.site != nil {
			if v, ok := fr.site.(ssa.Value); ok {
				site = x.vid(v)
			} else {
				site = int(fr.site.Pos())
			}
		}
		df := 0
		if fr.deferred {
			df = 1
		}
		buf = putInt(buf, -1, x.fid(fr.fn), fr.blk.Index, fr.pc, site, df, len(fr.defers), len(fr.runq), int(fr.seen[0]), int(fr.seen[1]))
		for _, d := range fr.defers {
			buf = putInt(buf, int(d.Pos()))
		}
	}
	lk := st.lk
	b2i := func(b bool) int {
		if b {
			return 1
		}
		return 0
	}
	buf = putInt(buf, -4, int(st.User), st.iterDepth)
	buf = putInt(buf, -2, int(st.must[0]), int(st.must[1]), int(st.may[0]), int(st.may[1]), int(st.iter[0]), int(st.iter[1]), int(st.stale[0]), int(st.stale[1]),
		int(lk.H), int(lk.HDepth), int(lk.S), int(lk.M), b2i(lk.SW), b2i(lk.MW), int(lk.T),
		int(lk.Si[0]), int(lk.Si[1]), int(lk.Si[2]), int(lk.Mi[0]), int(lk.Mi[1]), int(lk.Mi[2]))
	type ent struct {
		a, b, c int
		s       Sym
	}
	ents := x.ebuf[:0]
	for k, s := range st.env {
		ents = append(ents, ent{0, int(k.d), x.vid(k.v), s})
	}
	for k, s := range st.cells {
		ents = append(ents, ent{1, int(k.d), x.vid(k.v), s})
	}
	sort.Slice(ents, func(i, j int) bool {
		a, b := ents[i], ents[j]
		if a.a != b.a {
			return a.a < b.a
		}
		if a.b != b.b {
			return a.b < b.b
		}
		return a.c < b.c
	})
	for _, e := range ents {
		f := st.facts[e.s]
		z := 0
		if f.Zero {
			z = 1
		}
		if f.Neg1 {
			z = 2
		}
		buf = putInt(buf, e.a, e.b, e.c, int(e.s.d), int(e.s.i), x.vid(e.s.v), int(f.Nil), int(f.Bool), z, int(f.Tags),
			int(f.OkNil[0]), int(f.OkNil[1]), int(f.OkTrue[0]), int(f.OkTrue[1]))
	}
	if len(st.lenpos) > 0 {
		var lp [][3]int
		for k, v := range st.lenpos {
			lp = append(lp, [3]int{int(k.d), x.vid(k.v), int(v)})
		}
		sort.Slice(lp, func(i, j int) bool {
			if lp[i][0] != lp[j][0] {
				return lp[i][0] < lp[j][0]
			}
			return lp[i][1] < lp[j][1]
		})
		for _, e := range lp {
			buf = putInt(buf, -3, e[0], e[1], e[2])
		}
	}
	if len(st.memo) > 0 {
		type me struct {
			a [5]int
			f Fact
		}
		var ms []me
		for k, v := range st.memo {
			ms = append(ms, me{[5]int{int(k.base.d), x.vid(k.base.v), int(k.base.i), x.fldid(k.fld), x.vid(v.v)*8 + int(v.d)}, st.facts[v]})
		}
		sort.Slice(ms, func(i, j int) bool {
			for q := 0; q < 5; q++ {
				if ms[i].a[q] != ms[j].a[q] {
					return ms[i].a[q] < ms[j].a[q]
				}
			}
			return false
		})
		for _, m := range ms {
			buf = putInt(buf, -5, m.a[0], m.a[1], m.a[2], m.a[3], m.a[4], int(m.f.Nil), int(m.f.Bool), int(m.f.Tags))
		}
	}
	x.hbuf = buf
	x.ebuf = ents[:0]
	h := fnv.New64a()
	h.Write(buf)
	return h.Sum64()
}

// ---- driver ----------------------------------------------------------------------

// Run explores all abstract paths of the root function.
func (x *Explorer) Run() {
	st := &State{env: map[vkey]Sym{}, cells: map[vkey]Sym{}, facts: map[Sym]Fact{}, mask: x.Mask.Union(effs(ETblHas, EFsRObj, EJsonDec))}
	fn := x.Root
	start := fn.Blocks[0]
	// loop mode: the root is explored from its entry; iteration tracking starts at the first arrival at the header
	// of the tracked loop, which may live in the root or in a function inlined into it
	st.frames = []Frame{{fn: fn, blk: start}}
	// root parameters: receiver / args of unknown provenance
	for pi, p := range fn.Params {
		f := Fact{}
		pt := p.Type()
		if sl, ok := pt.Underlying().(*types.Slice); ok {
			pt = sl.Elem()
		}
		if ch, ok := pt.Underlying().(*types.Chan); ok {
			pt = ch.Elem()
		}
		if named(pt) == x.P.A.Object && types.IsInterface(pt) {
			f.Tags |= TParamObj
		}
		if pf, ok := x.InitParam[pi]; ok {
			pf.Tags |= f.Tags
			f = pf
		}
		st.define(p, f)
	}
	for i, fv := range fn.FreeVars {
		f, ok := x.InitFree[i]
		if !ok {
			continue
		}
		if x.InitFreeIsCell[i] {
			cs := Sym{d: 0, i: 1, v: fv}
			st.facts[cs] = f
			st.cells[vkey{0, fv}] = cs
			st.define(fv, Fact{Nil: triNo})
		} else {
			st.define(fv, f)
		}
	}
	x.work = append(x.work, st)
	for len(x.work) > 0 {
		s := x.work[len(x.work)-1]
		x.work = x.work[:len(x.work)-1]
		x.runState(s)
		if x.States > x.MaxStates {
			x.undecided("state budget exceeded exploring %s", FuncName(x.Root))
			return
		}
	}
}

func (x *Explorer) push(st *State) { x.work = append(x.work, st) }

// enterBlock moves the top frame to block b (from the current block), evaluates phis and deduplicates.
// Returns false if the state was seen before.
func (x *Explorer) enterBlock(st *State, b *ssa.BasicBlock) bool {
	fr := st.top()
	fr.prev = fr.blk
	fr.blk = b
	fr.pc = 0
	// loop mode: the first arrival at the header (in the frame of the function that owns the loop, at any
	// inlining depth) starts an iteration, the next arrival in that same frame ends it
	if x.LoopHeader != nil && fr.fn == x.LoopFn && (!st.trackIter || len(st.frames) == st.iterDepth) {
		if b == x.LoopHeader {
			if st.trackIter {
				x.Paths++
				x.L.End(x, st, "backedge")
				return false
			}
			st.trackIter = true
			st.iterDepth = len(st.frames)
			st.iter = EffSet{}
		} else if st.trackIter && x.LoopBlocks != nil && !x.LoopBlocks[b] && fr.prev == x.LoopHeader {
			// normal termination of the loop (left through the header)
			x.L.End(x, st, "loopexit")
			return false
		}
		// leaving from a body block (break / early return) keeps the iteration open: the path is followed to its return
	}
	// phis (simultaneous assignment)
	type bind struct {
		v ssa.Value
		s Sym
		f Fact
		c bool
	}
	var binds []bind
	for _, in := range b.Instrs {
		phi, ok := in.(*ssa.Phi)
		if !ok {
			break
		}
		fr.pc++
		idx := -1
		for i, p := range b.Preds {
			if p == fr.prev {
				idx = i
				break
			}
		}
		if idx < 0 {
			continue
		}
		e := phi.Edges[idx]
		switch e.(type) {
		case *ssa.Const, *ssa.Global, *ssa.Function:
			binds = append(binds, bind{v: phi, f: st.factOf(e), c: true})
		default:
			binds = append(binds, bind{v: phi, s: st.symOf(e), f: st.factOf(e)})
		}
	}
	for _, bd := range binds {
		if bd.c {
			st.define(bd.v, bd.f)
		} else {
			if _, ok := st.facts[bd.s]; !ok {
				st.facts[bd.s] = bd.f
			}
			st.alias(bd.v, bd.s)
		}
	}
	x.prune(st)
	h := x.hash(st)
	if _, ok := x.visited[h]; ok {
		return false
	}
	x.visited[h] = struct{}{}
	x.States++
	if x.Stat != nil {
		x.Stat[FuncName(st.top().fn)]++
	}
	return true
}

// runState runs one state until it terminates or forks.
func (x *Explorer) runState(st *State) {
	for {
		if st.steps++; st.steps > 200000 {
			x.undecided("path length budget exceeded in %s", FuncName(x.Root))
			return
		}
		fr := st.top()
		if fr.pc >= len(fr.blk.Instrs) {
			x.undecided("fell off block %d of %s", fr.blk.Index, FuncName(fr.fn))
			return
		}
		in := fr.blk.Instrs[fr.pc]
		if x.Trace != "" && strings.Contains(FuncName(fr.fn), x.Trace) {
			fmt.Printf("    TRACE d=%d %s b%d: %s\n", len(st.frames), FuncName(fr.fn), fr.blk.Index, in.String())
		}
		cont := x.step(st, in)
		if !cont {
			return
		}
	}
}

func (x *Explorer) emit(st *State, ev *Event) {
	if ev.Kind == EvEffect {
		st.add(ev.Eff)
	}
	x.L.Event(x, st, ev)
}

// Stack describes the current call stack for diagnostics.
func (x *Explorer) Stack(st *State, at token.Pos) string {
	var parts []string
	for i, fr := range st.frames {
		s := FuncName(fr.fn)
		if i+1 < len(st.frames) {
			if next := st.frames[i+1].site; next != nil {
				s += "@" + x.P.Pos(next.Pos())
			}
		} else if at.IsValid() {
			s += "@" + x.P.Pos(at)
		}
		parts = append(parts, s)
	}
	return strings.Join(parts, " -> ")
}

// StackFuncs lists the functions on the stack (outermost first).
func (st *State) StackFuncs() []*ssa.Function {
	var fs []*ssa.Function
	for _, fr := range st.frames {
		fs = append(fs, fr.fn)
	}
	return fs
}

func (st *State) onStack(fn *ssa.Function) bool {
	for _, fr := range st.frames {
		if fr.fn == fn {
			return true
		}
	}
	return false
}

// refine records that cond evaluated to truth; returns false if contradictory.
func (x *Explorer) refine(st *State, cond ssa.Value, truth bool) bool {
	f := st.factOf(cond)
	if f.Bool == triYes && !truth || f.Bool == triNo && truth {
		return false
	}
	switch c := cond.(type) {
	case *ssa.Const:
		return true
	case *ssa.UnOp:
		if c.Op == token.NOT {
			if !x.refine(st, c.X, !truth) {
				return false
			}
		}
	case *ssa.BinOp:
		if p, pos, ok := x.lenPosPattern(st, c); ok {
			want := triNo
			if pos == truth {
				want = triYes
			}
			k := vkey{st.depth(), p}
			if cur := st.lenpos[k]; cur != triUnk && cur != want {
				return false
			}
			if st.lenpos == nil {
				st.lenpos = map[vkey]tri{}
			}
			st.lenpos[k] = want
		}
		if c.Op == token.EQL || c.Op == token.NEQ {
			eq := (c.Op == token.EQL) == truth // operands are equal
			// `o.UUID() != ""` established: the object carries an identifier
			if !eq {
				for i, a := range []ssa.Value{c.X, c.Y} {
					b := []ssa.Value{c.Y, c.X}[i]
					if call, ok := a.(*ssa.Call); ok && call.Call.IsInvoke() && call.Call.Method.Name() == "UUID" && named(call.Call.Value.Type()) == x.P.A.Object {
						if s, ok := constString(b); ok && s == "" {
							x.emit(st, &Event{Kind: EvEffect, Eff: ECallInit, Instr: c, Tags: x.tagsOf(st, call.Call.Value)})
						}
					}
				}
			}
			for i, a := range []ssa.Value{c.X, c.Y} {
				b := []ssa.Value{c.Y, c.X}[i]
				fa, fb := st.factOf(a), st.factOf(b)
				if !isPointerLike(a.Type()) {
					continue
				}
				if fb.Nil == triYes {
					// a compared with nil
					want := triNo
					if eq {
						want = triYes
					}
					if fa.Nil != triUnk && fa.Nil != want {
						return false
					}
					x.setNil(st, a, want)
				} else if fb.Nil == triNo && eq {
					// a equals something non-nil
					if fa.Nil == triYes {
						return false
					}
					x.setNil(st, a, triNo)
				}
			}
		}
	case *ssa.Extract:
		// the ok of a comma-ok map lookup: on a miss the value is the zero value
		if lk, isLk := c.Tuple.(*ssa.Lookup); isLk && lk.CommaOk && c.Index == 1 && !truth {
			ts := st.symOf(lk)
			vs := Sym{d: ts.d, i: 1, v: ts.v}
			if _, ok := st.facts[vs]; ok {
				st.facts[vs] = zeroFact(lk.Type().(*types.Tuple).At(0).Type())
			}
		}
	case *ssa.Call:
		switch classifyExternal(c.Call.StaticCallee()) {
		case xErrorsIs, xIsNotExist:
			if truth && len(c.Call.Args) > 0 {
				if st.factOf(c.Call.Args[0]).Nil == triYes {
					return false
				}
				x.setNil(st, c.Call.Args[0], triNo)
			}
		}
	}
	// remember the truth value of cond itself
	if _, isConst := cond.(*ssa.Const); !isConst {
		s := st.symOf(cond)
		ff := st.facts[s]
		if truth {
			ff.Bool = triYes
			if !ff.OkTrue.Empty() {
				st.addSet(ff.OkTrue)
			}
		} else {
			ff.Bool = triNo
		}
		st.env[vkey{st.depth(), cond}] = s
		st.facts[s] = ff
	}
	return true
}

func (x *Explorer) setNil(st *State, v ssa.Value, t tri) {
	switch v.(type) {
	case *ssa.Const, *ssa.Global, *ssa.Function:
		return
	}
	s := st.symOf(v)
	f := st.facts[s]
	f.Nil = t
	if t == triYes && !f.OkNil.Empty() {
		st.addSet(f.OkNil)
		f.OkNil = EffSet{}
	}
	st.env[vkey{st.depth(), v}] = s
	st.facts[s] = f
}

// baseTags: tags of the object an address/derived value belongs to.
func (x *Explorer) tagsOf(st *State, v ssa.Value) Tag {
	if s, ok := constString(v); ok && x.P.A.SchemaFilename != nil && s == constantString(x.P.A.SchemaFilename) {
		return TSchemaPath
	}
	return st.factOf(v).Tags
}

func constantString(c *types.Const) string {
	s := c.Val().ExactString()
	if len(s) >= 2 && s[0] == '"' {
		return s[1 : len(s)-1]
	}
	return s
}

// idxMem reports whether t is (a pointer to / container of) one of the index structure types.
func (x *Explorer) idxMem(t types.Type) bool {
	for i := 0; i < 4; i++ {
		switch tt := t.Underlying().(type) {
		case *types.Pointer:
			t = tt.Elem()
			continue
		case *types.Slice:
			t = tt.Elem()
			continue
		case *types.Map:
			t = tt.Elem()
			continue
		}
		break
	}
	n := named(t)
	return n != nil && (n == x.P.A.ObjIndex || n == x.P.A.FieldIndex || n == x.P.A.IndexedField)
}

// loadTags computes the tags of a value loaded out of base (with tags bt).
func (x *Explorer) loadTags(bt Tag, baseType types.Type, resultType types.Type) Tag {
	t := bt & closedTags
	if bt&TDecoded != 0 {
		t |= TFresh
	}
	if bt&TFresh != 0 {
		if !isPointerLike(resultType) {
			t |= TFresh
		} else if x.idxMem(baseType) || x.idxMem(resultType) {
			// containers stored in index structures are fresh or self-derived (checked by rule IDX.container)
			t |= TFresh
		}
	}
	return t
}

// lenPosPattern recognises comparisons between len(parameter) and zero. It returns the parameter and
// whether a true outcome means len > 0.
func (x *Explorer) lenPosPattern(st *State, c *ssa.BinOp) (ssa.Value, bool, bool) {
	lenParam := func(v ssa.Value) ssa.Value {
		call, ok := v.(*ssa.Call)
		if !ok {
			return nil
		}
		b, ok := call.Call.Value.(*ssa.Builtin)
		if !ok || b.Name() != "len" || len(call.Call.Args) != 1 {
			return nil
		}
		switch a := call.Call.Args[0].(type) {
		case *ssa.Parameter:
			return a
		case *ssa.FreeVar:
			return a
		}
		return nil
	}
	isZero := func(v ssa.Value) bool { return st.factOf(v).Zero }
	if p := lenParam(c.X); p != nil && isZero(c.Y) {
		// len OP 0
		switch c.Op {
		case token.EQL, token.LEQ:
			return p, false, true
		case token.NEQ, token.GTR:
			return p, true, true
		}
	}
	if p := lenParam(c.Y); p != nil && isZero(c.X) {
		// 0 OP len
		switch c.Op {
		case token.EQL, token.GEQ:
			return p, false, true
		case token.NEQ, token.LSS:
			return p, true, true
		}
	}
	return nil, false, false
}

// emptyInput: the path assumed an empty variadic / slice parameter of the root (len == 0).
func (st *State) emptyInput() bool {
	for k, v := range st.lenpos {
		if k.d == 0 && v == triNo {
			return true
		}
	}
	return false
}
