package main

import (
	"encoding/json"
	"flag"
	"fmt"
	"os"
	"sort"
	"strconv"
	"time"

	"golang.org/x/tools/go/ssa"
)

type checkFn func(p *Prog, r *Result, tier string)

var checks = map[string]checkFn{}

func register(id string, f checkFn) { checks[id] = f }

var (
	flagOnly  string
	flagDebug bool
)

func main() {
	prop := flag.String("prop", "", "property id (C01..C20) or 'all'")
	tier := flag.String("tier", "", "quick|thorough")
	repo := flag.String("repo", "/repo", "repository working tree")
	verif := flag.String("verif", "/verif", "verif directory (evidence, known findings)")
	flag.StringVar(&flagOnly, "only", "", "only report the obligation with this key")
	flag.BoolVar(&flagDebug, "debug", false, "debug output")
	dump := flag.String("dump", "", "debug: dump events of root function NAME")
	descr := flag.Bool("descriptor", false, "print the format descriptor of -repo as JSON (used once to freeze golden/format.json from the pinned release)")
	flag.Parse()
	if *tier == "" {
		*tier = os.Getenv("VERIF_TIER")
	}
	if *tier == "" {
		*tier = "quick"
	}
	seed, _ := strconv.ParseInt(os.Getenv("VERIF_SEED"), 10, 64)

	defer func() {
		if e := recover(); e != nil {
			if b, ok := e.(brokenCheck); ok {
				fmt.Fprintf(os.Stderr, "BROKEN CHECK: %s\n", b.msg)
				os.Exit(2)
			}
			panic(e)
		}
	}()

	verifDir = *verif
	if *descr {
		p := Load(*repo, nil, false)
		b, _ := json.MarshalIndent(formatDescriptor(p), "", " ")
		fmt.Println(string(b))
		return
	}
	if *dump != "" {
		p := Load(*repo, nil, false)
		dumpRoot(p, *dump)
		return
	}

	var ids []string
	if *prop == "all" {
		for id := range checks {
			ids = append(ids, id)
		}
		sort.Strings(ids)
	} else if _, ok := checks[*prop]; ok {
		ids = []string{*prop}
	} else {
		fmt.Fprintf(os.Stderr, "unknown property %q\n", *prop)
		os.Exit(2)
	}
	p := Load(*repo, nil, false)
	code := 0
	for _, id := range ids {
		start := time.Now()
		r := NewResult(id)
		checks[id](p, r, *tier)
		if *tier == "thorough" && flagOnly == "" {
			selfValidate(id, r, *repo, *verif)
		}
		if flagOnly != "" {
			for k, o := range r.obs {
				if k != flagOnly {
					_ = o
					delete(r.obs, k)
				}
			}
			r.MinCount = map[string]int{}
		}
		if c := r.Finish(*verif, *tier, seed, start, p.A.Missing); c > code {
			code = c
		}
	}
	os.Exit(code)
}

// MultiListener fans events out.
type MultiListener []Listener

func (m MultiListener) Event(x *Explorer, st *State, ev *Event) {
	for _, l := range m {
		l.Event(x, st, ev)
	}
}
func (m MultiListener) Return(x *Explorer, st *State, ret *ssa.Return, res []Fact) {
	for _, l := range m {
		l.Return(x, st, ret, res)
	}
}
func (m MultiListener) End(x *Explorer, st *State, reason string) {
	for _, l := range m {
		l.End(x, st, reason)
	}
}

// dumpListener prints events (debug aid).
type dumpListener struct{ p *Prog }

func (d dumpListener) Event(x *Explorer, st *State, ev *Event) {
	switch ev.Kind {
	case EvEffect:
		fmt.Printf("  [%d] %-22s %s tags=%b lock=%v must=%s\n", len(st.frames), ev.Eff, x.Stack(st, ev.Instr.Pos()), ev.Tags, st.lk, "")
	case EvLock:
		fmt.Printf("  [%d] LOCK %s op=%d held=%v %s\n", len(st.frames), ev.LockClass, ev.LockOp, st.lk, x.Stack(st, ev.Instr.Pos()))
	}
}
func (d dumpListener) Return(x *Explorer, st *State, ret *ssa.Return, res []Fact) {
	fmt.Printf("RETURN %s results=%v must=%s\n", d.p.Pos(ret.Pos()), res, st.must)
}
func (d dumpListener) End(x *Explorer, st *State, reason string) {
	fmt.Printf("END %s must=%s\n", reason, st.must)
}

func dumpRoot(p *Prog, name string) {
	fn := p.FuncByName(name)
	if fn == nil {
		fmt.Println("no such function", name)
		return
	}
	c := computeClosures(p)
	x := NewExplorer(p, c, fn, Valuation{}, dumpListener{p})
	x.Stat = map[string]int{}
	x.MaxStates = 200000
	if os.Getenv("MASK") == "none" {
		x.Mask = EffSet{}
	}
	if os.Getenv("MASK") == "c06" {
		x.Mask = effs(EIdxWLive, EPutCache, EPutPend, EFsWObj, EFsWSchema, EFsRmObj, ECfgW, ETblW, EOkSchema, EOkValid, EOkUniq)
	}
	if os.Getenv("MASK") == "dirty" {
		x.Mask = effs(EDirty, EFsWSchema, EIdxWLive, ECallCommit)
	}
	x.Trace = os.Getenv("TRACE")
	if os.Getenv("QUIET") != "" {
		x.L = nopListener{}
	}
	x.Run()
	type kv struct{k string; v int}
	var kvs []kv
	for k, v := range x.Stat { kvs = append(kvs, kv{k, v}) }
	sort.Slice(kvs, func(i, j int) bool { return kvs[i].v > kvs[j].v })
	for i, e := range kvs { if i < 15 { fmt.Println("STAT", e.k, e.v) } }
	fmt.Printf("states=%d paths=%d undecided=%v\n", x.States, x.Paths, x.Undecided)
}

type nopListener struct{}

func (nopListener) Event(x *Explorer, st *State, ev *Event)                       {}
func (nopListener) Return(x *Explorer, st *State, ret *ssa.Return, res []Fact) {}
func (nopListener) End(x *Explorer, st *State, reason string)                   {}
