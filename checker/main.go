package main

import (
	"encoding/json"
	"flag"
	"fmt"
	"os"
	"sort"
	"strconv"
	"strings"
	"time"

	"golang.org/x/tools/go/ssa"
)

type checkFn func(p *Prog, r *Result, tier string)

var checks = map[string]checkFn{}

func register(id string, f checkFn) { checks[id] = f }

var (
	flagOnly  string
	flagDebug bool
)

func main() {
	prop := flag.String("prop", "", "property id (C01..C20) or 'all'")
	tier := flag.String("tier", "", "quick|thorough")
	repo := flag.String("repo", "/repo", "repository working tree")
	verif := flag.String("verif", "/verif", "verif directory (evidence, known findings)")
	flag.StringVar(&flagOnly, "only", "", "only report the obligation with this key")
	flag.BoolVar(&flagDebug, "debug", false, "debug output")
	dump := flag.String("dump", "", "debug: dump events of root function NAME")
	descr := flag.Bool("descriptor", false, "print the format descriptor of -repo as JSON (used once to freeze golden/format.json from the pinned release)")
	flag.Parse()
	if *tier == "" {
		*tier = os.Getenv("VERIF_TIER")
	}
	if *tier == "" {
		*tier = "quick"
	}
	seed, _ := strconv.ParseInt(os.Getenv("VERIF_SEED"), 10, 64)

	defer func() {
		if e := recover(); e != nil {
			if b, ok := e.(brokenCheck); ok {
				fmt.Fprintf(os.Stderr, "BROKEN CHECK: %s\n", b.msg)
				os.Exit(2)
			}
			panic(e)
		}
	}()

	verifDir = *verif
	if *descr {
		p := Load(*repo, nil, false)
		b, _ := json.MarshalIndent(formatDescriptor(p), "", " ")
		fmt.Println(string(b))
		return
	}
	if *dump != "" {
		p := Load(*repo, nil, false)
		dumpRoot(p, *dump)
		return
	}

	var ids []string
	if *prop == "all" {
		for id := range checks {
			ids = append(ids, id)
		}
		sort.Strings(ids)
	} else if _, ok := checks[*prop]; ok {
		ids = []string{*prop}
	} else {
		fmt.Fprintf(os.Stderr, "unknown property %q\n", *prop)
		os.Exit(2)
	}
	p := Load(*repo, nil, false)
	code := 0
	for _, id := range ids {
		start := time.Now()
		r := runCheck(p, id, *tier)
		if *tier == "thorough" && flagOnly == "" {
			selfValidate(id, r, *repo, *verif)
		}
		if flagOnly != "" {
			for k, o := range r.obs {
				if k != flagOnly {
					_ = o
					delete(r.obs, k)
				}
			}
			r.MinCount = map[string]int{}
		}
		if c := r.Finish(*verif, *tier, seed, start, p.A.Missing); c > code {
			code = c
		}
	}
	os.Exit(code)
}

// resultCache holds the raw result of every check run in this process (a check may share rules of another one).
var resultCache = map[string]*Result{}

var running = map[string]bool{}

func runCheck(p *Prog, id, tier string) *Result {
	if r, ok := resultCache[id]; ok {
		return r
	}
	if running[id] {
		broken("shared rules form a cycle through %s", id)
	}
	running[id] = true
	defer delete(running, id)
	r := NewResult(id)
	checks[id](p, r, tier)
	for _, sh := range sharedRules[id] {
		if fn, ok := sharedFuncs[sh.from]; ok {
			// a rule implemented by a function of its own (no property check has to run for it)
			sub := NewResult(id)
			doc := fn(p, sub, sh.rule)
			r.Rule(sh.as, doc+" [same rule as "+sh.rule+"; needed here because "+sh.why+"]", 1)
			for _, o := range sub.Obligations() {
				if o.Rule == sh.rule {
					r.Report(sh.as, o.Func, o.Construct, o.Status, o.Detail, o.Where, o.Trace, o.Nontrivial)
				}
			}
			continue
		}
		shareRule(p, r, tier, sh.from, sh.rule, sh.as, sh.why, sh.only)
	}
	resultCache[id] = r
	return r
}

// sharedFuncs: rules that are functions of their own; the value runs the rule under the given id and returns its text.
var sharedFuncs = map[string]func(p *Prog, r *Result, rule string) string{
	"fn:emptyConstraint": func(p *Prog, r *Result, rule string) string {
		checkConstraintTests(p, computeClosures(p), r, rule)
		return "an empty constraint stays a constraint: the evaluators decide 'is there a constraining set' by a nil test of the parameter, never by its length"
	},
	"fn:discovery": func(p *Prog, r *Result, rule string) string {
		checkDiscovery(p, r, rule, rule)
		return "file discovery inverts the namer (finite evaluation over the name shapes the namer can produce: extensions with one or several dots, with and without the compressed suffix)"
	},
}

type share struct{ from, rule, as, why, only string } // only: restrict to obligations whose construct contains it

func sh(from, rule, as, why string, only ...string) share {
	x := share{from: from, rule: rule, as: as, why: why}
	if len(only) > 0 {
		x.only = only[0]
	}
	return x
}

// sharedRules: structural necessary conditions that serve more than one property (no cycles: a check listed as `from`
// never shares, directly or not, from the property that borrows from it).
var sharedRules = map[string][]share{
	"C01": {
		sh("fn:discovery", "C18.R4", "C01.S4", "Count, All and the iterators report the objects the directory listing finds: a discovery that mis-parses <uuid><extension>[.gz] hides objects that were accepted, or reports files that are not objects"),
		sh("C14", "C14.R4", "C01.S3", "a clone that leaves some kinds shallow lets the caller change what cached reads report without any accepted write"),
		sh("C14", "C14.R1", "C01.S1", "a stored entry that aliases the caller's structure changes what reads report without any accepted write"),
		sh("C14", "C14.R2", "C01.S2", "a read that hands out the stored entry lets the caller change what later reads report"),
	},
	"C02": {sh("C20", "C20.R5", "C02.S3", "a search resolves the object ids of the index entries through the id-to-uuid map: an id handed out twice after reopening makes an entry resolve to another object"), sh("fn:emptyConstraint", "C12.R5", "C02.S2", "And on an empty result must stay empty: a constraining set that is tested by its length instead of nil turns an empty constraint into no constraint and the search returns objects that do not satisfy the predicate"), sh("C14", "C14.R1", "C02.S1", "a search on an unindexed field evaluates the cached objects: an entry aliasing the caller's value makes it match on values that were never written")},
	"C04": {sh("fn:discovery", "C18.R4", "C04.S2", "reopening re-discovers the object files from their names: a discovery that mis-parses <uuid><extension>[.gz] reports a healthy collection as corrupted"), sh("C10", "C10.R7", "C04.S1", "a pending write that survives the deletion of its object is flushed later: the file of a deleted object reappears and the reopened handle sees a collection the closed one did not have", "")},
	"C05": {sh("C11", "C11.R1", "C05.S2", "after a crash the reopened handle learns about a lost file or a lost index entry only through these two loops, under every configuration"), sh("C11", "C11.R6", "C05.S1", "reopening after a crash relies on the schema control to report every index/file divergence: a success path that skips an inclusion loop lets a stale entry survive unnoticed", "")},
	"C06": {sh("C08", "C08.R3", "C06.S3", "the validation verdict of a write must still hold when the index is changed: if the handle lock is released in between, a write that is refused (unique violation) has already been half-applied by the time the error is returned"), sh("C11", "C11.R1", "C06.S2", "a write refused for a corrupted index must be refused with the error class the integrity control reports (wrapped with %w), otherwise callers and Repair cannot tell the refused write from an applied one"), sh("C05", "C05.R5", "C06.S1", "a write that fails after the temporary file exists leaves that file behind: if the integrity control takes it for the object's file, the failed write is silently half-applied", "")},
	"C11": {sh("fn:discovery", "C18.R4", "C11.S2", "Control and Repair see the directory through the discovery function: it has to recognise every object file name the namer can produce (extension with inner dots, compressed suffix)"), sh("C18", "C18.R1", "C11.S1", "Control and Repair decide which directory entries are object files with this pattern: it has to accept every identifier the write path can produce (callers may supply upper-case UUIDs)", "pattern.uuid")},
	"C03": {sh("C20", "C20.R5", "C03.S2", "the unique test recognises the object being updated by its id: an id handed out twice after reopening lets a second object take a unique value, or refuses an update of the owner"), sh("C04", "C04.R4", "C03.S1", "uniqueness is judged on the case-normalised value: a published schema without its transformer list judges raw values")},
	"C15": {sh("C16", "C16.R3", "C15.S2", "the schema case transforms run over the transformer list: a descriptor with a case constraint that is kept out of it is validated and stored untransformed"), sh("C04", "C04.R4", "C15.S1", "the schema case transforms are a no-op on a published schema whose transformer list was not rebuilt")},
	"C16": {sh("C04", "C04.R4", "C16.S1", "case-insensitive fields are stored and indexed un-normalised when a published schema lacks its transformer list")},
	"C07": {sh("C08", "C08.R3", "C07.S1", "validate-all then insert-all is atomic only if both loops run in one critical section: a writer admitted in between makes the insert loop fail half-way")},
	"C08": {sh("C01", "C01.R8", "C08.S2", "two overlapping bulk deletes must end as one of their sequential orders does: the second one meets objects the first already removed and has to go on to the end of its iterator"), sh("C10", "C10.R5", "C08.S1", "the flusher's closed-handle test and its flush must be one critical section, otherwise the flush can run after a concurrent Close/Drop returned (check-then-act)")},
	"C12": {sh("C02", "C02.R6", "C12.S5", "the indexed and the scanning evaluator must hand an empty result on in the same form: a Search that can hold a nil result slice makes And on an empty result run unconstrained on one path and not on the other", "non-nil"), sh("C17", "C17.R8", "C12.S4", "when a Create changes the cache setting the cache of the collection is dropped, otherwise reads under the new configuration answer from entries the old one left behind"), sh("C14", "C14.R4", "C12.S3", "with the cache (or asynchronous writes) on, reads come from clones: a shallow clone makes cached and uncached configurations answer differently after the caller edits its own value"), sh("C01", "C01.R7", "C12.S2", "the indexed search reports an unreadable object when its result is collected: the scan of an unindexed field has to report it too, not stop silently"), sh("C01", "C01.R2", "C12.S1", "under every cache / async valuation a delete evicts what that valuation caches, otherwise Exist/Get answers depend on the configuration")},
	"C09": {sh("C13", "C13.R6", "C09.S1", "the bulk delete holds the handle write lock while it drains an iterator and continues after read errors: an iterator that does not advance on an error never reaches the end, the call never returns and every other call blocks")},
	"C13": {sh("C11", "C11.R8", "C13.S4", "result order is the order of the index as loaded: an ordering control that skips entries lets an index file with an unordered tail be served"), sh("C08", "C08.R1", "C13.S3", "a walk over the sorted list of a field index must exclude writers: a concurrent insertion or deletion shifts the entries under it and the result is neither ordered nor complete", "fieldIndex."), sh("C11", "C11.R7", "C13.S2", "an index that failed its ordering control must never be served: result order is the order of the index"), sh("C02", "C02.R5", "C13.S1", "result order is the order of the live field index: a write through a result slice aliasing it re-orders or drops entries")},
	"C18": {sh("C14", "C14.R7", "C18.S3", "with asynchronous writes the file is encoded from the cloned pending copy: a clone that turns empty containers into nil writes null where the object's JSON encoding has [] or {}"), sh("C17", "C17.R6", "C18.S2", "a stored schema whose extension / compression / descriptors are switched by a later Create no longer describes the files that are on disk"), sh("C16", "C16.R4", "C18.S1", "field descriptors are part of schema.json and are compared on Create: the tag words must produce the constraint flags the pinned release wrote")},
	"C10": {sh("C17", "C17.R3", "C10.S1", "a Create that switches asynchronous writes off must flush the pending writes first: afterwards nothing flushes them and acknowledged writes never reach the disk", "pending writes flushed before the settings change")},
	"C19": {
		sh("C11", "C11.R8", "C19.S6", "the index panics recorded as known findings are unreachable only for an ordered index: the ordering control has to compare every entry"),
		sh("C17", "C17.R2", "C19.S1", "the index panics recorded as known findings are unreachable only for an index that passed the control: a schema published after a failed control reaches them"),
		sh("C02", "C02.R4", "C19.S3", "the comparators assert the dynamic type of both operands without a check: the class guard is what turns a mistyped search value into ErrCasting instead of a panic"),
		sh("C11", "C11.R7", "C19.S4", "a structurally wrong schema.json (reordered or missing index entries) must be refused on every call, not published under the repairable class: the field-index deletion panics on such an index"),
		sh("C01", "C01.R7", "C19.S5", "a search that could not read an object must report it, not return the objects found so far"),
		sh("C11", "C11.R3", "C19.S2", "a schema whose load failed with a plain error must not stay in the table, later calls would work on an index that failed its own control"),
	},
}

// shareRule re-states a rule of another property's check under this property: the rule is a necessary condition of
// both. The obligations are those of the other check, run on the same program; `as` is the rule id here and `why` says
// what this property needs it for.
func shareRule(p *Prog, r *Result, tier, from, rule, as, why, only string) {
	src := runCheck(p, from, tier)
	doc, ok := src.Rules[rule]
	if !ok {
		broken("shared rule %s not defined by %s", rule, from)
	}
	min := src.MinCount[rule]
	if only != "" {
		doc += " (restricted to: " + only + ")"
		min = 1
	}
	r.Rule(as, doc+" [same obligations as "+rule+"; needed here because "+why+"]", min)
	for _, o := range src.Obligations() {
		if o.Rule != rule || (only != "" && !strings.Contains(o.Construct, only)) {
			continue
		}
		n := r.Report(as, o.Func, o.Construct, o.Status, o.Detail, o.Where, o.Trace, o.Nontrivial)
		n.Contexts = o.Contexts
	}
}

// MultiListener fans events out.
type MultiListener []Listener

func (m MultiListener) Event(x *Explorer, st *State, ev *Event) {
	for _, l := range m {
		l.Event(x, st, ev)
	}
}
func (m MultiListener) Return(x *Explorer, st *State, ret *ssa.Return, res []Fact) {
	for _, l := range m {
		l.Return(x, st, ret, res)
	}
}
func (m MultiListener) End(x *Explorer, st *State, reason string) {
	for _, l := range m {
		l.End(x, st, reason)
	}
}

// dumpListener prints events (debug aid).
type dumpListener struct{ p *Prog }

func (d dumpListener) Event(x *Explorer, st *State, ev *Event) {
	switch ev.Kind {
	case EvEffect:
		fmt.Printf("  [%d] %-22s %s tags=%b lock=%v must=%s\n", len(st.frames), ev.Eff, x.Stack(st, ev.Instr.Pos()), ev.Tags, st.lk, "")
	case EvLock:
		fmt.Printf("  [%d] LOCK %s op=%d held=%v %s\n", len(st.frames), ev.LockClass, ev.LockOp, st.lk, x.Stack(st, ev.Instr.Pos()))
	}
}
func (d dumpListener) Return(x *Explorer, st *State, ret *ssa.Return, res []Fact) {
	fmt.Printf("RETURN %s results=%v must=%s\n", d.p.Pos(ret.Pos()), res, st.must)
}
func (d dumpListener) End(x *Explorer, st *State, reason string) {
	fmt.Printf("END %s must=%s\n", reason, st.must)
}

func dumpRoot(p *Prog, name string) {
	fn := p.FuncByName(name)
	if fn == nil {
		fmt.Println("no such function", name)
		return
	}
	c := computeClosures(p)
	x := NewExplorer(p, c, fn, Valuation{}, dumpListener{p})
	x.Stat = map[string]int{}
	x.MaxStates = 200000
	if os.Getenv("MASK") == "none" {
		x.Mask = EffSet{}
	}
	if os.Getenv("MASK") == "c06" {
		x.Mask = effs(EIdxWLive, EPutCache, EPutPend, EFsWObj, EFsWSchema, EFsRmObj, ECfgW, ETblW, EOkSchema, EOkValid, EOkUniq)
	}
	if os.Getenv("MASK") == "dirty" {
		x.Mask = effs(EDirty, EFsWSchema, EIdxWLive, ECallCommit)
	}
	x.Trace = os.Getenv("TRACE")
	if os.Getenv("QUIET") != "" {
		x.L = nopListener{}
	}
	x.Run()
	type kv struct {
		k string
		v int
	}
	var kvs []kv
	for k, v := range x.Stat {
		kvs = append(kvs, kv{k, v})
	}
	sort.Slice(kvs, func(i, j int) bool { return kvs[i].v > kvs[j].v })
	for i, e := range kvs {
		if i < 15 {
			fmt.Println("STAT", e.k, e.v)
		}
	}
	fmt.Printf("states=%d paths=%d undecided=%v\n", x.States, x.Paths, x.Undecided)
}

type nopListener struct{}

func (nopListener) Event(x *Explorer, st *State, ev *Event)                    {}
func (nopListener) Return(x *Explorer, st *State, ret *ssa.Return, res []Fact) {}
func (nopListener) End(x *Explorer, st *State, reason string)                  {}
