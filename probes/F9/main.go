package main

import (
	"fmt"
	"os"
	"path/filepath"
	"strings"

	"github.com/0xrawsec/sod"
)

type In struct{ X int }

type T struct {
	sod.Item
	A   int `sod:"index"`
	S   string `sod:"index"`
	Ptr *int
	Nst *In
}

func try(f func() error) (err error) {
	defer func() {
		if r := recover(); r != nil {
			err = fmt.Errorf("PANIC: %v", r)
		}
	}()
	return f()
}

func fresh() (string, *sod.DB) {
	dir, _ := os.MkdirTemp("", "f9")
	db := sod.Open(dir)
	if err := db.Create(&T{}, sod.DefaultSchema); err != nil {
		panic(err)
	}
	db.InsertOrUpdate(&T{A: 1, S: "a"})
	db.Close()
	return dir, sod.Open(dir)
}

func main() {
	bad := 0
	report := func(name string, err error) {
		fmt.Printf("%-44s -> %v\n", name, err)
		if err != nil && strings.HasPrefix(err.Error(), "PANIC") {
			bad++
		}
	}
	// F9a: a stray file without extension in the collection directory
	dir, db := fresh()
	os.WriteFile(filepath.Join(dir, "main.T", "README"), []byte("x"), 0600)
	report("F9a stray file 'README' then Count", try(func() error { _, err := db.Count(&T{}); return err }))
	os.RemoveAll(dir)
	// F9b/F9c: structurally wrong schema files
	for _, c := range []struct{ name, from, to string }{
		{"F9b index entry is an empty tuple", `[1,0]`, `[]`},
		{"F9b index entry id is a string", `[1,0]`, `[1,"x"]`},
		{"F9b index value of the wrong class", `[1,0]`, `["x",0]`},
		{"F9b unknown cast", `"cast":"int64"`, `"cast":"int65"`},
		{"F9c null index entry", `[1,0]`, `null`},
		{"F9c null field index", `"A":{`, `"A":null,"ZZ":{`},
	} {
		dir, db := fresh()
		sp := filepath.Join(dir, "main.T", "schema.json")
		b, _ := os.ReadFile(sp)
		if !strings.Contains(string(b), c.from) {
			panic("pattern not found: " + c.from + " in " + string(b))
		}
		txt := string(b)
		if c.to == `"A":null,"ZZ":{` {
			k := strings.Index(txt, `"index":{`)
			txt = txt[:k] + strings.Replace(txt[k:], c.from, c.to, 1)
		} else {
			txt = strings.Replace(txt, c.from, c.to, 1)
		}
		os.WriteFile(sp, []byte(txt), 0600)
		report(c.name, try(func() error { _, err := db.Count(&T{}); return err }))
		os.RemoveAll(dir)
	}
	dir, db = fresh()
	os.WriteFile(filepath.Join(dir, "main.T", "schema.json"), []byte("null"), 0600)
	report("F9c schema.json = null", try(func() error { _, err := db.Count(&T{}); return err }))
	os.RemoveAll(dir)
	// F9d: pointer-typed leaf in a search path
	dir, db = fresh()
	report("F9d Search on pointer leaf 'Ptr'", try(func() error { return db.Search(&T{}, "Ptr", "=", 1).Err() }))
	report("F9d Search on pointer-to-struct leaf 'Nst'", try(func() error { return db.Search(&T{}, "Nst", "=", 1).Err() }))
	os.RemoveAll(dir)
	if bad > 0 {
		fmt.Println(bad, "panics")
		os.Exit(1)
	}
}
