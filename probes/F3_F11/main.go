package main

import (
	"fmt"
	"math"
	"os"

	"github.com/0xrawsec/sod"
)

type T struct {
	sod.Item
	K string `sod:"unique"`
	F float64
}

func main() {
	dir, _ := os.MkdirTemp("", "f3")
	defer os.RemoveAll(dir)
	db := sod.Open(dir)
	sch := sod.DefaultSchema
	sch.Cache = true
	if err := db.Create(&T{}, sch); err != nil {
		panic(err)
	}
	a, b := &T{K: "a"}, &T{K: "b"}
	db.InsertOrUpdate(a)
	db.InsertOrUpdate(b)
	// F3: rejected update must leave no trace in the cache
	b2 := &T{K: "a"}
	b2.Initialize(b.UUID())
	err := db.InsertOrUpdate(b2)
	got, _ := db.GetByUUID(&T{}, b.UUID())
	fmt.Printf("F3: update err=%v ; Get(b).K=%q (want \"b\")\n", err != nil, got.(*T).K)
	// F11: unserialisable object must leave no trace
	n0, _ := db.Count(&T{})
	err = db.InsertOrUpdate(&T{K: "nan", F: math.NaN()})
	n1, _ := db.Count(&T{})
	fmt.Printf("F11: insert NaN err=%v ; count before=%d after=%d ; control=%v\n", err != nil, n0, n1, db.Control())
	if got.(*T).K != "b" || n0 != n1 {
		os.Exit(1)
	}
}
