package main

import (
	"fmt"
	"os"
	"path/filepath"
	"time"

	"github.com/0xrawsec/sod"
)

type T struct {
	sod.Item
	A int `sod:"index"`
}

func files(dir string) int {
	m, _ := filepath.Glob(filepath.Join(dir, "main.T", "*-*-*.json"))
	return len(m)
}

func main() {
	dir, _ := os.MkdirTemp("", "f17")
	defer os.RemoveAll(dir)
	db := sod.Open(dir)
	async := sod.DefaultSchema
	async.Asynchrone(1000, 300*time.Millisecond)
	if err := db.Create(&T{}, async); err != nil {
		panic(err)
	}
	for i := 0; i < 3; i++ {
		db.InsertOrUpdate(&T{A: i})
	}
	fmt.Println("pending, files on disk:", files(dir))
	// live switch: asynchronous writes off
	if err := db.Create(&T{}, sod.DefaultSchema); err != nil {
		panic(err)
	}
	fmt.Println("after switching async off, files on disk:", files(dir), "(want 3: nothing may be stranded)")
	db.InsertOrUpdate(&T{A: 10})
	time.Sleep(900 * time.Millisecond) // the flusher wakes up with the settings gone
	n, err := db.Count(&T{})
	fmt.Printf("F17: process alive, Count=%d err=%v files=%d (want 4, nil, 4)\n", n, err, files(dir))
	// switch on again with other settings, a new routine must flush
	async2 := sod.DefaultSchema
	async2.Asynchrone(1000, 200*time.Millisecond)
	if err := db.Create(&T{}, async2); err != nil {
		panic(err)
	}
	db.InsertOrUpdate(&T{A: 11})
	time.Sleep(900 * time.Millisecond)
	fmt.Printf("after switching async on again: files=%d (want 5)\n", files(dir))
	if files(dir) != 5 || n != 4 {
		os.Exit(1)
	}
}
