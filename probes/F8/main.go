package main

import (
	"fmt"
	"os"
	"path/filepath"
	"time"

	"github.com/0xrawsec/sod"
)

type T struct {
	sod.Item
	A int `sod:"index"`
}

func main() {
	dir, _ := os.MkdirTemp("", "f8")
	defer os.RemoveAll(dir)
	db := sod.Open(dir)
	sch := sod.DefaultSchema
	sch.Asynchrone(10, 200*time.Millisecond)
	if err := db.Create(&T{}, sch); err != nil {
		panic(err)
	}
	db.Close()
	// reopen: the schema is loaded lazily by the first call
	db = sod.Open(dir)
	o := &T{A: 1}
	o.Initialize("11111111-2222-3333-4444-555555555555") // already identified object: no Exist() round trip
	if err := db.InsertOrUpdate(o); err != nil {
		panic(err)
	}
	time.Sleep(1500 * time.Millisecond) // 7 x timeout
	files, _ := filepath.Glob(filepath.Join(dir, "main.T", "1111*"))
	fmt.Printf("F8: object files on disk after 7 timeouts without further calls: %d (want 1)\n", len(files))
	if len(files) != 1 {
		os.Exit(1)
	}
}
