package main

import (
	"fmt"
	"os"
	"sync"

	"github.com/0xrawsec/sod"
)

type T struct {
	sod.Item
	A int `sod:"index"`
}

func main() {
	dir, _ := os.MkdirTemp("", "f5")
	defer os.RemoveAll(dir)
	db := sod.Open(dir)
	if err := db.Create(&T{}, sod.DefaultSchema); err != nil {
		panic(err)
	}
	for i := 0; i < 20; i++ {
		db.InsertOrUpdate(&T{A: i})
	}
	db.Close()
	for round := 0; round < 50; round++ {
		// fresh handle: the first accesses load the schema lazily under the read lock
		db = sod.Open(dir)
		var wg sync.WaitGroup
		for g := 0; g < 8; g++ {
			wg.Add(1)
			go func() {
				defer wg.Done()
				if _, err := db.Count(&T{}); err != nil {
					panic(err)
				}
				// chained refinement concurrent with writers
				s := db.Search(&T{}, "A", ">=", 0).And("A", "<", 100)
				if s.Err() != nil {
					panic(s.Err())
				}
				db.InsertOrUpdate(&T{A: 1000})
			}()
		}
		wg.Wait()
		db.Close()
	}
	fmt.Println("OK")
}
