package main

import (
	"fmt"
	"os"
	"path/filepath"

	"github.com/0xrawsec/sod"
)

type T struct {
	sod.Item
	A int `sod:"index"`
}

func main() {
	dir, _ := os.MkdirTemp("", "f12")
	defer os.RemoveAll(dir)
	db := sod.Open(dir)
	if err := db.Create(&T{}, sod.DefaultSchema); err != nil {
		panic(err)
	}
	o := &T{A: 1}
	db.InsertOrUpdate(o)
	db.InsertOrUpdate(&T{A: 2})
	db.Close()
	// corrupt: remove one object file behind the database's back
	os.Remove(filepath.Join(dir, "main.T", o.UUID()+".json"))
	db = sod.Open(dir)
	_, err := db.Count(&T{})
	fmt.Println("after corruption, first access:", err)
	fmt.Println("Repair:", db.Repair(&T{}), " Control:", db.Control())
	// synchronous mode: every completed call is durable, the handle is abandoned without Close
	db2 := sod.Open(dir)
	_, err = db2.Count(&T{})
	fmt.Printf("F12: new handle after Repair: err=%v (want nil)\n", err)
	if err != nil {
		os.Exit(1)
	}
}
