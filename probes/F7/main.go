package main

import (
	"fmt"
	"os"
	"time"

	"github.com/0xrawsec/sod"
)

type T struct {
	sod.Item
	A int `sod:"index"`
}

func main() {
	res := map[bool]bool{}
	for _, async := range []bool{false, true} {
		dir, _ := os.MkdirTemp("", "f7")
		db := sod.Open(dir)
		sch := sod.DefaultSchema
		if async {
			sch.Asynchrone(1000, time.Hour)
		}
		if err := db.Create(&T{}, sch); err != nil {
			panic(err)
		}
		o := &T{A: 1}
		if err := db.InsertOrUpdate(o); err != nil {
			panic(err)
		}
		ok, err := db.Exist(o)
		_, gerr := db.Get(o)
		fmt.Printf("F7: async=%v Exist=%v (err=%v) Get err=%v\n", async, ok, err, gerr)
		res[async] = ok
		db.Close()
		os.RemoveAll(dir)
	}
	if res[false] != res[true] {
		os.Exit(1)
	}
}
