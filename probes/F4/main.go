package main

import (
	"fmt"
	"os"
	"sort"

	"github.com/0xrawsec/sod"
)

type T struct {
	sod.Item
	A int `sod:"index"`
}

func vals(objs []sod.Object) (v []int) {
	for _, o := range objs {
		v = append(v, o.(*T).A)
	}
	sort.Ints(v)
	return
}

func main() {
	dir, _ := os.MkdirTemp("", "f4")
	defer os.RemoveAll(dir)
	db := sod.Open(dir)
	if err := db.Create(&T{}, sod.DefaultSchema); err != nil {
		panic(err)
	}
	for i := 0; i < 6; i++ {
		db.InsertOrUpdate(&T{A: i})
	}
	bad := false
	// (1) snapshot: a search evaluated before an insert must not return the new object
	s := db.Search(&T{}, "A", ">=", 3)
	db.InsertOrUpdate(&T{A: 100})
	objs, err := s.Collect()
	fmt.Println("snapshot A>=3 collected after inserting 100:", vals(objs), err)
	for _, v := range vals(objs) {
		if v == 100 {
			bad = true
		}
	}
	// (2) Or must not corrupt the index
	u := db.Search(&T{}, "A", "<", 2).Or("A", ">=", 4)
	objs, _ = u.Collect()
	fmt.Println("A<2 or A>=4:", vals(objs), " Control after Or:", db.Control())
	if db.Control() != nil {
		bad = true
	}
	if bad {
		os.Exit(1)
	}
}
