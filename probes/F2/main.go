package main

import (
	"fmt"
	"os"

	"github.com/0xrawsec/sod"
)

type T struct {
	sod.Item
	A int
}

func main() {
	dir, _ := os.MkdirTemp("", "f2")
	defer os.RemoveAll(dir)
	db := sod.Open(dir)
	sch := sod.DefaultSchema
	sch.Cache = true
	if err := db.Create(&T{}, sch); err != nil {
		panic(err)
	}
	db.InsertOrUpdate(&T{A: 1})
	absent := "11111111-2222-3333-4444-555555555555"
	_, e1 := db.GetByUUID(&T{}, absent)
	_, e2 := db.GetByUUID(&T{}, absent)
	fmt.Printf("F2: first lookup of an absent uuid err=%v ; second err=%v (want both errors)\n", e1 != nil, e2 != nil)
	if e1 == nil || e2 == nil {
		os.Exit(1)
	}
}
