package main

import (
	"fmt"
	"os"
	"sync"
	"time"

	"github.com/0xrawsec/sod"
)

type T struct {
	sod.Item
	A int `sod:"index"`
}

func main() {
	dir, _ := os.MkdirTemp("", "f1")
	defer os.RemoveAll(dir)
	db := sod.Open(dir)
	if err := db.Create(&T{}, sod.DefaultSchema); err != nil {
		panic(err)
	}
	for i := 0; i < 5; i++ {
		db.InsertOrUpdate(&T{A: i})
	}
	var wg sync.WaitGroup
	done := make(chan bool)
	for g := 0; g < 8; g++ {
		wg.Add(2)
		go func() {
			defer wg.Done()
			for i := 0; i < 300; i++ {
				db.All(&T{})
			}
		}()
		go func(g int) {
			defer wg.Done()
			for i := 0; i < 300; i++ {
				db.InsertOrUpdate(&T{A: g*1000 + i})
			}
		}(g)
	}
	go func() { wg.Wait(); close(done) }()
	select {
	case <-done:
		fmt.Println("OK: all calls returned")
	case <-time.After(20 * time.Second):
		fmt.Println("DEADLOCK: no progress after 20s")
		os.Exit(1)
	}
}
