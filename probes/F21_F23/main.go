package main

import (
	"fmt"
	"os"
	"path/filepath"
	"strings"
	"time"

	"github.com/0xrawsec/sod"
)

type A struct {
	sod.Item
	N int64  `sod:"index"`
	S string `sod:"index,upper"`
	P *int
}
type B struct {
	sod.Item
	N int `sod:"index"`
}

func try(name string, f func()) {
	defer func() {
		if r := recover(); r != nil {
			fmt.Printf("%s: PANIC %v\n", name, r)
		}
	}()
	f()
}

func main() {
	dir, _ := os.MkdirTemp("", "p21")
	defer os.RemoveAll(dir)
	// F21: one schema value (one *Async) used for two collections
	{
		db := sod.Open(filepath.Join(dir, "f21"))
		s := sod.DefaultSchema
		s.Asynchrone(1, 200*time.Millisecond)
		fmt.Println("create A", db.Create(&A{}, s), "create B", db.Create(&B{}, s))
		a, b := &A{N: 1}, &B{N: 1}
		db.InsertOrUpdate(a)
		db.InsertOrUpdate(b)
		time.Sleep(1500 * time.Millisecond)
		_, ea := os.Stat(filepath.Join(dir, "f21", "main.A", a.UUID()+".json"))
		_, eb := os.Stat(filepath.Join(dir, "f21", "main.B", b.UUID()+".json"))
		fmt.Printf("F21 after 1.5s (threshold 1, timeout 200ms): A on disk: %v, B on disk: %v\n", ea == nil, eb == nil)
		db.Close()
	}
	// base db for the malformed-file probes
	mk := func(name string) (string, *sod.DB) {
		root := filepath.Join(dir, name)
		db := sod.Open(root)
		db.Create(&A{}, sod.DefaultSchema)
		for i := 0; i < 3; i++ {
			db.InsertOrUpdate(&A{N: int64(i), S: fmt.Sprintf("s%d", i)})
		}
		db.Close()
		return root, nil
	}
	edit := func(root string, f func(string) string) {
		p := filepath.Join(root, "main.A", "schema.json")
		b, _ := os.ReadFile(p)
		os.WriteFile(p, []byte(f(string(b))), 0600)
	}
	// F22a: cast of a field index changed
	{
		root, _ := mk("f22a")
		edit(root, func(s string) string { return strings.Replace(s, `"cast":"int64"`, `"cast":"uint64"`, 1) })
		db := sod.Open(root)
		try("F22a cast int64->uint64", func() {
			n, err := db.Count(&A{})
			fmt.Println("F22a load: count", n, "err", err)
			fmt.Println("F22a insert:", db.InsertOrUpdate(&A{N: 7, S: "x"}))
		})
	}
	// F22b: object-ids null
	{
		root, _ := mk("f22b")
		b, _ := os.ReadFile(filepath.Join(root, "main.A", "schema.json"))
		i := strings.Index(string(b), `"object-ids":`)
		fmt.Println("F22b has object-ids key:", i >= 0)
		db := sod.Open(root)
		db.DeleteAll(&A{})
		db.Close()
		edit(root, func(s string) string {
			i := strings.Index(s, `"object-ids":{`)
			if i < 0 {
				return s
			}
			j := strings.Index(s[i:], "}")
			return s[:i] + `"object-ids":null` + s[i+j+1:]
		})
		db = sod.Open(root)
		try("F22b object-ids null", func() {
			n, err := db.Count(&A{})
			fmt.Println("F22b load: count", n, "err", err)
			fmt.Println("F22b insert:", db.InsertOrUpdate(&A{N: 7, S: "x"}))
		})
	}
	// F22c/d: search arguments
	{
		root, _ := mk("f22c")
		db := sod.Open(root)
		try("F22c Search uuid field", func() { fmt.Println("F22c:", db.Search(&A{}, "uuid", "=", "x").Err()) })
		try("F22d Search upper field with nil", func() { fmt.Println("F22d:", db.Search(&A{}, "S", "=", nil).Err()) })
		// F22e: unreadable object file during an unindexed search
		ents, _ := os.ReadDir(filepath.Join(root, "main.A"))
		for _, e := range ents {
			if e.Name() != "schema.json" {
				os.WriteFile(filepath.Join(root, "main.A", e.Name()), []byte("{broken"), 0600)
				break
			}
		}
		try("F22e", func() {
			s := db.Search(&A{}, "P", "=", 1)
			fmt.Println("F22e unindexed search with a broken file: len", s.Len(), "err", s.Err())
			s2 := db.Search(&A{}, "N", ">=", int64(0))
			_, err := s2.Collect()
			fmt.Println("F22e indexed search, collect err:", err)
		})
	}
}
