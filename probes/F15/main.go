package main

import (
	"fmt"
	"os"
	"path/filepath"

	"github.com/0xrawsec/sod"
)

type T struct {
	sod.Item
	A int `sod:"index"`
}

func main() {
	dir, _ := os.MkdirTemp("", "f15")
	defer os.RemoveAll(dir)
	db := sod.Open(dir)
	if err := db.Create(&T{}, sod.DefaultSchema); err != nil {
		panic(err)
	}
	db.InsertOrUpdate(&T{A: 1})
	db.InsertOrUpdate(&T{A: 2})
	// make the schema commit fail: schema.json becomes a directory
	sp := filepath.Join(dir, "main.T", sod.SchemaFilename)
	os.Remove(sp)
	os.Mkdir(sp, 0700)
	err := db.DeleteAll(&T{})
	fmt.Printf("F15: DeleteAll with failing commit returned err=%v (want an error)\n", err)
	if err == nil {
		os.Exit(1)
	}
}
