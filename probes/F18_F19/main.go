package main

import (
	"fmt"
	"os"
	"path/filepath"

	"github.com/0xrawsec/sod"
)

type T struct {
	sod.Item
	I int    `sod:"index"`
	N int
	U string `sod:"unique"`
}

func main() {
	dir, _ := os.MkdirTemp("", "f18")
	defer os.RemoveAll(dir)
	db := sod.Open(dir)
	sch := sod.DefaultSchema
	if err := db.Create(&T{}, sch); err != nil {
		panic(err)
	}
	// F18: wrong-typed value on an EMPTY collection: indexed vs unindexed
	e1 := db.Search(&T{}, "I", "=", "str").Err()
	e2 := db.Search(&T{}, "N", "=", "str").Err()
	fmt.Printf("F18 empty collection, mistyped value: indexed err=%v ; unindexed err=%v\n", e1, e2)
	// F19: Repair when a file was removed and another added with the same unique value
	a := &T{I: 1, N: 1, U: "same"}
	db.InsertOrUpdate(a)
	db.Close()
	cdir := filepath.Join(dir, "main.T")
	old := filepath.Join(cdir, a.UUID()+".json")
	b, _ := os.ReadFile(old)
	os.Remove(old)
	newUUID := "11111111-2222-3333-4444-555555555555"
	os.WriteFile(filepath.Join(cdir, newUUID+".json"), b, 0600)
	db = sod.Open(dir)
	_, err := db.Count(&T{})
	fmt.Println("after swap, first access:", err)
	rerr := db.Repair(&T{})
	fmt.Printf("F19 Repair: %v ; Control: %v\n", rerr, db.Control())
}
