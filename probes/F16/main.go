package main

import (
	"fmt"
	"os"

	"github.com/0xrawsec/sod"
)

type T struct {
	sod.Item
	Arr  [2]*int
	Any  interface{}
	Nest [1][]int
}

func main() {
	dir, _ := os.MkdirTemp("", "f16")
	defer os.RemoveAll(dir)
	db := sod.Open(dir)
	sch := sod.DefaultSchema
	sch.Cache = true
	if err := db.Create(&T{}, sch); err != nil {
		panic(err)
	}
	one, two := 1, 2
	o := &T{Arr: [2]*int{&one, &two}, Any: [1]int{5}, Nest: [1][]int{{1, 2}}}
	if err := db.InsertOrUpdate(o); err != nil {
		panic(err)
	}
	// the caller keeps using its own memory
	*o.Arr[0] = 100
	o.Nest[0][0] = 100
	got, err := db.Get(&T{Item: o.Item})
	if err != nil {
		panic(err)
	}
	g := got.(*T)
	fmt.Printf("F16: stored Arr[0]=1, Nest[0][0]=1; after the caller mutated its own object a cached read returns Arr[0]=%d Nest[0][0]=%d\n", *g.Arr[0], g.Nest[0][0])
	if *g.Arr[0] != 1 || g.Nest[0][0] != 1 {
		os.Exit(1)
	}
}
