package main

import (
	"fmt"
	"math"
	"os"
	"time"

	"github.com/0xrawsec/sod"
)

type T struct {
	sod.Item
	Big int64     `sod:"index"`
	U   uint64    `sod:"index"`
	TS  time.Time `sod:"index"`
}

func main() {
	dir, _ := os.MkdirTemp("", "f6")
	defer os.RemoveAll(dir)
	db := sod.Open(dir)
	if err := db.Create(&T{}, sod.DefaultSchema); err != nil {
		panic(err)
	}
	ts := time.Unix(1700000000, 123456789)
	vals := []int64{1<<53 + 1, math.MaxInt64 - 1}
	for _, v := range vals {
		db.InsertOrUpdate(&T{Big: v, U: uint64(v) + 7, TS: ts})
	}
	count := func(db *sod.DB) (n int) {
		for _, v := range vals {
			n += db.Search(&T{}, "Big", "=", v).Len()
			n += db.Search(&T{}, "U", "=", uint64(v)+7).Len()
		}
		n += db.Search(&T{}, "TS", "=", ts).Len()
		return
	}
	before := count(db)
	db.Close()
	db = sod.Open(dir)
	after := count(db)
	fmt.Printf("F6: matches before reopen=%d after reopen=%d (want equal)\n", before, after)
	if before != after {
		os.Exit(1)
	}
}
