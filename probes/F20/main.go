package main

import (
	"fmt"
	"os"
	"path/filepath"

	"github.com/0xrawsec/sod"
)

type T struct {
	sod.Item
	Name string `sod:"index"`
	Tag  string `sod:"index" json:",omitempty"`
}

func main() {
	dir, _ := os.MkdirTemp("", "f20")
	defer os.RemoveAll(dir)
	db := sod.Open(dir)
	if err := db.Create(&T{}, sod.DefaultSchema); err != nil {
		panic(err)
	}
	db.InsertOrUpdate(&T{Name: "seed", Tag: "x"})
	db.Close()
	// two object files added behind the database's back; the second has no Tag member (omitempty)
	cdir := filepath.Join(dir, "main.T")
	os.WriteFile(filepath.Join(cdir, "aaaaaaaa-0000-0000-0000-000000000001.json"), []byte(`{"Name":"first","Tag":"secret"}`), 0600)
	os.WriteFile(filepath.Join(cdir, "aaaaaaaa-0000-0000-0000-000000000002.json"), []byte(`{"Name":"second"}`), 0600)
	db = sod.Open(dir)
	db.Count(&T{})
	if err := db.Repair(&T{}); err != nil {
		panic(err)
	}
	// the index must carry each file's actual values: "second" has an empty Tag
	n := db.Search(&T{}, "Tag", "=", "secret").Len()
	m := db.Search(&T{}, "Tag", "=", "").Len()
	fmt.Printf("F20: objects indexed with Tag=secret: %d (want 1), with empty Tag: %d (want 1) — over several runs, map order decides\n", n, m)
	if n != 1 || m != 1 {
		os.Exit(1)
	}
}
