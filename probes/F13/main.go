package main

import (
	"fmt"
	"os"

	"github.com/0xrawsec/sod"
)

type T struct {
	sod.Item
	A int `sod:"index"`
}

// usage: probe write <dir>   : creates the collection and inserts objects (run under a crash injector)
//        probe check <dir>   : opens the directory again and reports
func main() {
	dir := os.Args[2]
	db := sod.Open(dir)
	switch os.Args[1] {
	case "write":
		if err := db.Create(&T{}, sod.DefaultSchema); err != nil {
			panic(err)
		}
		for i := 0; i < 3; i++ {
			if err := db.InsertOrUpdate(&T{A: i}); err != nil {
				panic(err)
			}
		}
	case "check":
		n, err := db.Count(&T{})
		fmt.Printf("F13: after the crash: Count=%d err=%v (want: a readable schema: nil or ErrIndexCorrupted, never a parse error)\n", n, err)
		if err != nil && !sod.IsIndexCorrupted(err) {
			os.Exit(1)
		}
	}
}
