package main

import (
	"fmt"
	"os"

	"github.com/0xrawsec/sod"
)

type T struct {
	sod.Item
	S string `sod:"index"`
	N string
	I int
}

func try(name string, f func() error) (err error) {
	defer func() {
		if r := recover(); r != nil {
			err = fmt.Errorf("PANIC: %v", r)
		}
	}()
	return f()
}

func main() {
	dir, _ := os.MkdirTemp("", "f9e")
	defer os.RemoveAll(dir)
	db := sod.Open(dir)
	if err := db.Create(&T{}, sod.DefaultSchema); err != nil {
		panic(err)
	}
	db.InsertOrUpdate(&T{S: "a", N: "a", I: 1})
	bad := false
	for _, c := range []struct{ field, op string; val interface{} }{{"S", "<>", "a"}, {"N", "<>", "a"}, {"I", "<>", 1}, {"S", "~=", "("}, {"N", "~=", "("}} {
		err := try(c.field, func() error { return db.Search(&T{}, c.field, c.op, c.val).Err() })
		fmt.Printf("Search(%s %s %v): err=%v\n", c.field, c.op, c.val, err)
		if err == nil || len(err.Error()) > 5 && err.Error()[:5] == "PANIC" {
			bad = true
		}
	}
	if bad {
		os.Exit(1)
	}
}
