package main

import (
	"os"
	"path/filepath"
	"time"

	"github.com/0xrawsec/sod"
)

type Inner struct {
	X int    `sod:"index"`
	L string `sod:"lower"`
}

type GoldenObject struct {
	sod.Item
	A   int       `sod:"index"`
	U   uint16    `sod:"index"`
	F   float64   `sod:"index"`
	S   string    `sod:"unique,upper"`
	T   time.Time `sod:"index"`
	N   Inner
	P   *Inner
	Raw []byte
}

func gen(root string, mk func() sod.Schema, lower bool) {
	sod.LowercaseNames = lower
	db := sod.Open(root)
	if err := db.Create(&GoldenObject{}, mk()); err != nil {
		panic(err)
	}
	base := time.Unix(1600000000, 123456789).UTC()
	for i := 0; i < 4; i++ {
		o := &GoldenObject{A: i - 1, U: uint16(i * 1000), F: float64(i) * 1.5, S: string(rune('a' + i)), T: base.Add(time.Duration(i) * time.Hour), N: Inner{X: i, L: "MiXed"}, Raw: []byte{1, 2}}
		if i%2 == 0 {
			o.P = &Inner{X: 10 + i}
		}
		if err := db.InsertOrUpdate(o); err != nil {
			panic(err)
		}
	}
	if err := db.Close(); err != nil {
		panic(err)
	}
}

func main() {
	out := os.Args[1]
	gen(filepath.Join(out, "default"), func() sod.Schema { return sod.DefaultSchema }, false)
	gen(filepath.Join(out, "compress"), func() sod.Schema { return sod.DefaultSchemaCompress }, false)
	gen(filepath.Join(out, "async_cache_lower"), func() sod.Schema { s := sod.DefaultSchema; s.Cache = true; s.Asynchrone(2, 50*time.Millisecond); return s }, true)
	gen(filepath.Join(out, "custom_ext"), func() sod.Schema { s := sod.DefaultSchema; s.Extension = ".obj"; return s }, false)
}
